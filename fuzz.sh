#!/bin/bash
# usage: fuzz.sh <fz_text|fz_tokens|fz_machine|fz_tui> <runs per job> <seed> [jobs] [max_len]
# Coverage-guided campaign (cargo-fuzz / libFuzzer, nightly) for the thorough tier.
#  - fresh corpus directory per campaign, seeded with small valid inputs (+ an empty input)
#  - fixed work: -runs=N -seed=S per job (a libFuzzer campaign is pinned only approximately)
#  - every artifact is re-checked by the deterministic, non-instrumented replay path
#    (`check fuzz-replay` / `check-bin fuzz-replay`) before anything is reported
# Writes /verif/target/fuzz-stats-<target>.json; exit 0 = no confirmed finding, 1 = confirmed
# finding(s) (details in the stats file, the thorough check turns them into VIOLATION lines),
# 2 = inconclusive (build problem, unconfirmed artifact).
set -u
TARGET="$1"; RUNS="${2:-100000}"; SEED="${3:-1}"; JOBS="${4:-8}"; MAXLEN="${5:-768}"
export CARGO_NET_OFFLINE=true
case "$TARGET" in
  fz_text|fz_tokens|fz_machine) CRATE=/verif/harness; REPLAY=/verif/target/release/check ;;
  fz_tui) CRATE=/verif/harness-bin; REPLAY=/verif/target/release/check-bin ;;
  *) echo "unknown target $TARGET"; exit 2 ;;
esac
[ "$SEED" = 0 ] && SEED=1   # libFuzzer: 0 means random
KEY=$( (git -C /repo rev-parse HEAD; git -C /repo diff; echo "$RUNS $SEED $JOBS $MAXLEN"; git -C /verif rev-parse HEAD 2>/dev/null; git -C /verif diff -- harness harness-bin fuzz.sh 2>/dev/null) | sha1sum | cut -c1-16)
STATS=/verif/target/fuzz-stats-$TARGET.json
if [ -f "$STATS" ] && grep -q "\"key\": \"$KEY\"" "$STATS"; then
  echo "fuzz.sh: campaign $TARGET for this tree/seed already ran (key $KEY), reusing $STATS"
  grep -q '"findings": \[\]' "$STATS" && exit 0 || exit 1
fi
LOG=/verif/target/fuzz-$TARGET.log
# the deterministic replay binary must be built from the same tree as the fuzz target
if ! (cd "$CRATE" && cargo build --release --offline -q) >"$LOG.replay-build" 2>&1; then
  echo "fuzz.sh: BUILD FAILED (replay binary), see $LOG.replay-build"; exit 2
fi
if ! (cd "$CRATE" && cargo +nightly fuzz build "$TARGET") >"$LOG" 2>&1; then
  echo "fuzz.sh: BUILD FAILED, see $LOG"; tail -5 "$LOG"; exit 2
fi
WORK=/verif/target/fuzz-work/$TARGET.$$
CORPUS=$WORK/corpus; ART=$WORK/artifacts
rm -rf "$WORK"; mkdir -p "$CORPUS" "$ART"
: > "$CORPUS/empty"
if [ "$TARGET" = fz_text ]; then
  i=0; find /repo/testing/programs /repo/programs -name '*.asm' 2>/dev/null | sort | while read -r f; do i=$((i+1)); cp "$f" "$CORPUS/seed$i.asm"; done
else
  python3 - "$CORPUS" "$SEED" <<'EOF'
import sys, hashlib
d, seed = sys.argv[1], sys.argv[2]
for i in range(48):
    out = b""; k = 0
    while len(out) < 64 + 13 * i:
        out += hashlib.sha256(("%s-%d-%d" % (seed, i, k)).encode()).digest(); k += 1
    open("%s/rnd%02d" % (d, i), "wb").write(bytes([i % 8]) + out[: 64 + 13 * i])
EOF
fi
DICT=""; [ "$TARGET" = fz_text ] && DICT="-dict=/verif/fuzz-text.dict"
START=$(date +%s)
(cd "$CRATE" && cargo +nightly fuzz run "$TARGET" "$CORPUS" -- -runs="$RUNS" -seed="$SEED" -max_len="$MAXLEN" -len_control=0 -jobs="$JOBS" -workers="$JOBS" -artifact_prefix="$ART/" -print_final_stats=1 -timeout=60 $DICT) >>"$LOG" 2>&1
RC=$?
END=$(date +%s)
# libFuzzer writes one log per job into the cwd of the run (the crate dir)
EXECS=0; COV=0
for f in "$CRATE"/fuzz-*.log; do
  [ -f "$f" ] || continue
  e=$(grep -a "stat::number_of_executed_units" "$f" | tail -1 | awk '{print $2}'); EXECS=$((EXECS + ${e:-0}))
  c=$(grep -a -o "cov: [0-9]*" "$f" | tail -1 | awk '{print $2}'); [ "${c:-0}" -gt "$COV" ] && COV=$c
  cat "$f" >> "$LOG"; rm -f "$f"
done
NCORP=$(ls "$CORPUS" | wc -l)
FINDINGS=""; UNCONFIRMED=0
for a in "$ART"/crash-* "$ART"/oom-* "$ART"/timeout-*; do
  [ -f "$a" ] || continue
  mkdir -p /verif/replays
  KEEP=/verif/replays/fuzz-$TARGET-$(sha1sum "$a" | cut -c1-16).bin
  cp "$a" "$KEEP"
  OUT=$(timeout 120 "$REPLAY" fuzz-replay "$TARGET" "$KEEP" 2>&1)
  if echo "$OUT" | grep -q "^FINDING "; then
    while read -r line; do
      J=$(python3 -c "
import json,sys
l=sys.argv[1].split(' ',3)
print(json.dumps({'property':l[1],'signature':l[2],'detail':l[3] if len(l)>3 else '','artifact':sys.argv[2]}))" "$line" "$KEEP")
      FINDINGS="$FINDINGS${FINDINGS:+, }$J"
    done < <(echo "$OUT" | grep "^FINDING ")
  else
    case "$a" in
      */crash-*) UNCONFIRMED=$((UNCONFIRMED+1)); echo "fuzz.sh: artifact $a not confirmed by the deterministic replay: $OUT" | head -3 ;;
      *) echo "fuzz.sh: resource artifact $a (timeout/oom) ignored: inconclusive, not a violation" ;;
    esac
  fi
done
cat > "$STATS" <<EOF
{"key": "$KEY", "target": "$TARGET", "engine": "cargo-fuzz 0.13 / libFuzzer (nightly), ASan", "runs_per_job": $RUNS, "jobs": $JOBS, "seed": $SEED, "max_len": $MAXLEN,
 "executions": $EXECS, "coverage_edges": $COV, "corpus_files_at_end": $NCORP, "seed_corpus": "$( [ "$TARGET" = fz_text ] && echo "repository .asm files + empty input" || echo "48 pseudo-random files + empty input" )", "input_decoding": "$( case "$TARGET" in fz_text) echo "bytes taken as UTF-8 text (lossy)";; fz_tokens) echo "bytes decoded line by line into instruction templates / tokens of the mrasm vocabulary (harness/src/fuzzsupport.rs token_text)";; *) echo "hand-written byte decoder into the structured case of the check";; esac )",
 "wall_s": $((END-START)), "libfuzzer_exit": $RC, "unconfirmed_artifacts": $UNCONFIRMED, "findings": [$FINDINGS]}
EOF
rm -rf "$WORK"
if [ "$EXECS" = 0 ]; then echo "fuzz.sh: campaign did not execute anything (see $LOG): inconclusive"; rm -f "$STATS"; exit 2; fi
echo "fuzz.sh: $TARGET executions=$EXECS cov=$COV corpus=$NCORP wall=$((END-START))s findings=$(echo "$FINDINGS" | grep -c property) unconfirmed=$UNCONFIRMED"
[ -n "$FINDINGS" ] && exit 1
[ "$UNCONFIRMED" -gt 0 ] && exit 2
exit 0
