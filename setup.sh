#!/bin/sh
# Builds the verification machinery from files on disk only (offline).
export CARGO_NET_OFFLINE=true
set -e
mkdir -p /verif/target /verif/evidence /verif/replays
(cd /verif/harness && cargo build --release --offline)
(cd /repo && cargo build --offline -p emulator-2a --target-dir /verif/target/repo-bin)
if [ -d /verif/harness-bin ]; then (cd /verif/harness-bin && cargo build --release --offline); fi
