#!/usr/bin/env python3
"""Regenerates /verif/MANIFEST.json from the table below (kept in one place so the manifest
stays valid while checks are added).  Run: python3 mkmanifest.py"""
import json, subprocess, os

ALL = ["C%02d" % i for i in range(1, 18)]

# id -> (category, technique, text, note, design_ref)
CHECKS = {
    "C01": ("exploration",
            "differential testing against an instruction-level reference model: proptest-generated single instructions and lock-step programs, exhaustive operand sweeps of the ALU/unary groups",
            "Every defined first byte and defined second byte is executed from generated register/RAM/input states (boundary-biased, PC and operands in the I/O page included) and compared at the next instruction boundary with an independent instruction-level model (R0-R3, FR, SP, all RAM, FE/FF, halt outcome); the reg-reg ALU group incl. MUL/DIV is swept over all 65 536 operand pairs x carry-in (quick: two register pairs + one PC-involving pair, thorough: all 16 pairs with PC swept over every opcode position), the unary group over 256 values x 16 flag patterns x 4 registers; generated programs run up to 250 instructions in lock-step without re-synchronisation, steps taken in either step mode. Sampling, not proof, outside the swept groups.",
            "Trusted: harness/src/isa.rs as the documented instruction set (DESIGN.md Appendix A). Limits set to stack size 0 / program size 255; supervision is C05's subject. Undefined second bytes end a sequence (behaviour unspecified).",
            "DESIGN.md §4 C01"),
    "C15": ("exploration",
            "differential testing of clock-edge counts against a documented per-form control-word table plus one wait per RAM access (same generators as C01, exhaustive MUL/DIV operand sweep)",
            "For every executed instruction of C01's three generators the number of raw clock edges between two boundaries must equal the documented control-word count of the form/addressing mode (data-dependent for JR, MUL, DIV) plus one wait for each model access to an address <= 0xEF and none for I/O addresses; MUL/DIV are swept over all operand pairs.",
            "Trusted: the step-count table `steps()` in harness/src/isa.rs (DESIGN.md Appendix A). Counts are only taken for steps issued as raw edges; step-mode independence of the count is C11's equivalence.",
            "DESIGN.md §4 C15"),
    "C02": ("exploration",
            "differential testing against a two-pass reference assembler; exhaustive enumeration of instruction form x operand shape x register, each after generated directive prefixes; AST-first random programs",
            "Every machine-instruction form x operand shape x register (about 2 500 shapes, enumerated) is assembled bare and after generated prefixes of .ORG/.BYTE/.DB/.DW/*STACKSIZE/*PROGRAMSIZE with the referenced label before or after it, and AST-first random programs (image <= 240 bytes, forward .ORG, unique names, references in any letter case) are assembled; per source line the reported line and its bytes, the limits and the whole image must equal the reference assembler's (opcode/mode bits, operand bytes, zero fill, big-endian words, case-insensitive label/.EQU resolution, relative offsets modulo 256).",
            "Trusted: harness/src/refasm.rs (DESIGN.md Appendix B) and the harness parser agreement (C03). Programs with backward .ORG, images > 240 bytes or duplicate names are outside C02's domain (C06 covers crashes).",
            "DESIGN.md §4 C02"),
    "C03": ("exploration",
            "differential testing against a hand-written recogniser of the language: AST-first valid programs with random spelling (expected AST known by construction), token-level mutants, token soups, arbitrary Unicode / bytes; enumerated boundary texts and complete numeric sweeps; catch_unwind for crashes",
            "Valid-by-construction programs must be accepted with exactly the generated AST (line by line, comments trimmed); for mutants and arbitrary strings the verdict (accept / syntax error / undefined labels / too many labels) and, on acceptance, the AST must equal those of an independent line-oriented recogniser; any panic is a violation. Enumerated: hand-written boundary texts (255/256, 0x100, 8/9 binary digits, 65535/65536, 40/41 definitions, header forms, register spellings), every word value 0..65535(+) in all three radices, every byte value in every constant context.",
            "Trusted: harness/src/refparse.rs (DESIGN.md Appendix C); its agreement with the generator is self-checked on every valid case and against the hand-written boundary expectations (a disagreement there is a harness error, exit 2).",
            "DESIGN.md §4 C03"),
    "C06": ("exploration",
            "robustness property testing with catch_unwind over the whole accepted language (AST-first generation + acceptable mutants), crash signatures keyed by panic site + layout shape against a known-findings list",
            "Programs over everything the parser accepts (DEC with all operand shapes, mixed-case references, .ORG backward/equal/forward, images 0..400 bytes, up to 40 names, every instruction shape) are parsed; if accepted (and the reference recogniser agrees) Translator::compile, Machine::load, Machine::new_with_program and the byte-code listing must not panic in a build with debug assertions and overflow checks. Two root causes remain as known findings (deliberate panic on backward .ORG; images > 240 bytes); they are keyed on panic site + layout shape so that any other crash, or the same panic site on a program without that shape, is reported.",
            "Trusted: Rust panic detection. Process level: for sampled accepted programs the real binary's `verify` must exit 0 and `run p 0` must not die. The TUI path (Tui::load_program, ProgramDisplayState::from_bytecode, program pane rendering) is exercised by C17, whose scripts load 48 generated accepted programs.",
            "DESIGN.md §4 C06"),
    "C16": ("exploration",
            "round-trip property testing (format -> parse) at program and line granularity over AST-first generated programs, enumerated instruction shapes and mutants",
            "For every accepted text the parsed program's Display rendering must be accepted and parse to an equal Asm, and each line's Display rendering (the TUI program pane / listing form), appended to a header and followed by definitions of the names it references, must parse back to exactly that line; enumerated over every instruction form x operand shape x register and generated over numeric values, comments with printable/Unicode content and labels of 1-60 characters.",
            "Trusted: the parser (C03). The hex column of listings is not mrasm and is not fed back.",
            "DESIGN.md §4 C16"),
    "C04": ("exploration",
            "metamorphic + monitor-based testing: proptest-generated (main, ISR) programs, key press injected at every clock cycle of the run (exhaustive per program) and at every ordered pair of cycles in a window; clone-based obligation monitor, entry-shape check, interrupted == uninterrupted relation",
            "For each generated program the uninterrupted run gives T; then every cycle 0..=T is tried as trigger. At the trigger an uninterrupted clone is advanced to the first sampling boundary: if enable bit and IEF are set at the press and IEF still is at that boundary the routine must be entered exactly there (PC=2, SP-2, return address and flags pushed, IEF cleared, nothing else changed); if the enable bit (or IEF at both points) is clear it must not be entered; otherwise the count is unconstrained. Every run must end in exactly the state of the uninterrupted run (registers, flags, SP, outputs, RAM outside counter cell and dead stack), and the ISR counter must equal the entries seen at boundaries. Second triggers merge into an undecided obligation.",
            "Trusted: only public observables are used. Main programs never read 0xF9 except via BITS (0xF9),1. The pending flip-flop being consumed at the first sampling point is this code base's documented behaviour (DESIGN.md §2).",
            "DESIGN.md §4 C04"),
    "C05": ("exploration",
            "invariant monitor after every clock edge (stateful testing) plus differential lock-step with the instruction-level model; enumerated LDSP / PC-limit / jump-target sweeps and proptest-generated programs and halt-time stimuli",
            "Every clock edge of every run is observed: Running implies SP outside the band table written in the harness and PC <= limit; an edge that writes an invalid SP/PC must end ErrorStopped; Running->ErrorStopped only with invalid SP/PC or opcode 0x00 loaded, Running->Stopped only with opcode 0x01 loaded; at instruction level the halt kind must match the opcode fetched by the reference model. At each halt the machine must be bit-for-bit unchanged by clock edges in both step modes, keep its state under key-interrupt/input/board stimuli, stay error-stopped under continue, and after continue from STOP resume in lock-step with the model. Complete sweeps: LDSP v (256 values) x 9 follow-ups x 5 stack sizes; every PC limit x STOP/0x00/NOP at limit-1/limit/limit+1; jumps to all 256 addresses under 10 limits.",
            "Trusted: band table and PC rule in harness/src/props/c05.rs; reference model isa.rs. An error stop caused by a micro-level intermediate write (e.g. operand-fetch PC increment) is accepted when the observed SP/PC is invalid at that edge. Stack size NotSet / program size Auto without load are outside the domain (documented precondition).",
            "DESIGN.md §4 C05"),
    "C09": ("exploration",
            "exhaustive graph construction of the control space through the real clock-edge function with forced inputs (verif hook), graph invariants, concrete exhaustive MUL/DIV sweep",
            "Breadth-first from reset over (micro-address, IR): each state is stepped with all 16 flag patterns x 6 ALU-latch outcomes x pending interrupt and, on IR-loading words, all 256 bytes. On the resulting graph: only programmed words from defined opcodes, address bits 8-5 equal IR bits 7-4, every path from a defined opcode (with defined second byte) reaches a fetch within 32 words, cycles only inside the MUL/DIV routines, and the never-completing first bytes are exactly 0x4C-0x4F, 0xE0-0xEF. MUL and DIV are executed concretely for all 65 536 operand pairs (and Rd=Rs) within their documented bounds. Thorough adds the full 512 x 256 product of forced states.",
            "Trusted: verif_force_control sets exactly the next-address inputs; defined opcode sets written in the harness. The level-interrupt input cannot be forced (constantly absent in this code base).",
            "DESIGN.md §4 C09"),
    "C11": ("exploration",
            "model-based stateful testing: mode-switching machine vs raw-edge twin with reference stepping (whole-machine equality after every operation), instruction-level model cross-check, enumerated termination over all 256 opcode bytes",
            "Histories of raw edges, Assembly steps, key interrupts, continue, CPU reset and input changes run on two copies: the machine under test through Machine::trigger_key_clock with step-mode switches, and a twin that only ever receives single edges, an Assembly step being replaced by reference stepping written from the statement. After every operation both RawMachines must be equal; from clean boundaries the step is also compared with the instruction-level model (exactly one instruction). Steps are issued from every phase (mid-instruction, wait pending, interrupt pending, halted). Termination: for every opcode byte at PC in three phases; where the reference proves a fixed point (no boundary can ever come) the step runs on a helper thread and not returning within 10 s is a violation.",
            "Trusted: ref_step in harness/src/props/c11.rs. Helper-thread guarding is budgeted (first 4000 termination-critical steps per run, which includes all enumerated ones); beyond that a hang ends in the watchdog (exit 2).",
            "DESIGN.md §4 C11"),
    "C12": ("exploration",
            "differential testing against a stepping loop written from the statement: proptest-generated runs in-process (RunnerConfig::run / verify, whole-machine equality) and at process level (the real binary's stdout lines and exit status)",
            "Generated runs (programs incl. the repository's test programs and unparsable texts, budgets from 0, interrupt/reset multisets with cycle 0, duplicates, beyond-the-end and same-cycle entries, every configuration value the CLI accepts, numbers in dec/0x/0b, expectation subsets with matching and mismatching values): run() must return a machine equal to 'new + load + 13 setters, then per cycle interrupt, reset, one clock edge, stop after N or at the first non-Running cycle' and the number of edges issued; verify() must succeed exactly when every stated expectation matches; the spawned 2a-emulator binary must print the same Cycles/State/FE/FF values and exit non-zero exactly when the file is missing, the program unparsable or an expectation fails.",
            "Trusted: the reference loop in harness/src/props/c12.rs. Process-level runs use a debug build of /repo's binary (hooks off) with NO_COLOR=1 and a private TMPDIR; the Time: line is ignored. C06 crash shapes are not generated.",
            "DESIGN.md §4 C12"),
    "C13": ("exploration",
            "robustness property testing (no panic / overflow under catch_unwind with debug assertions), proptest-generated stimulus scripts over template-built and random RAM images; libFuzzer target fz_machine in the thorough tier",
            "Scripts of up to 120 calls (clock edges in both step modes, key interrupt, continue, cpu/master reset, load, input and board setters with arbitrary f32 bit patterns incl. NaN/inf/subnormal, direct Bus::read/write on all addresses, direct Board calls, limit setters) run on machines loaded with I/O-biased, uniform or mixed images under all stack sizes and program-size settings; every call is wrapped in catch_unwind in a build with overflow checks and debug assertions, every public getter is read after every call, and the machine is stepped once more at the end.",
            "Trusted: Rust's panic/overflow detection as crash oracle. Stacksize::NotSet is never installed (documented precondition). Images above 240 bytes belong to C06.",
            "DESIGN.md §4 C13"),
    "C07": ("exploration",
            "stateful property testing over operation histories: after every prefix each reset kind is applied to a clone; invariants via getters + hook snapshot, metamorphic forgetting/retention relations between perturbed clones, differential lock-step of follow-up programs against a fresh machine",
            "After every prefix of a generated history (loads with every stack/program-size setting incl. NOSET/AUTO, clock edges in both modes, key interrupts, continue, resets, input/board setters, writes to 0xF0-0xFF): CPU reset must give power-on registers/sequencer/latches/outputs/MICR with state Running and leave RAM, inputs, board, limits and step mode untouched; clones differing only in erasable state (outputs, MICR, UCR, registers; for master also inputs and timer) must become equal, clones differing in retained state (timer, RAM) must stay different; master reset must additionally zero inputs and the board's outputs/DAICR/fan/UIO directions but never RAM or physical inputs; load must do all that, install image+zeros and the limits, and the follow-up program must run edge-for-edge like on a fresh machine.",
            "Trusted: hook snapshot for private latches. Board comparator/UIO/interrupt status bits and MISR after a reset are not constrained (statement silent).",
            "DESIGN.md §4 C07"),
    "C10": ("exploration",
            "exhaustive enumeration (single writes, ordered write pairs, reads) plus model-based random histories against a map-based bus model",
            "Every (address, byte) write from three base states, every ordered pair of write addresses followed by a read of all 256 addresses, and random histories of write/read/input/board-input/key-trigger operations are compared after every operation with a map-based model: RAM cells only change by writes to themselves, no write to 0xF0-0xFF changes RAM, inputs read at 0xFC-0xFF are what was set from outside and are immune to writes, FE/FF outputs change only by writes to 0xFE/0xFF, 0xF9 writes set the enable mask and never the status read there, 0xF0/0xF1 writes reach the board ports, reads of 0xF0/0xF1/0xF3 return the board's input port and status registers, and reads change nothing.",
            "Trusted: the bus model in harness/src/props/c10.rs. Unmentioned addresses (0xF2 read, 0xF4-0xF8, 0xFA/0xFB, the value of the status bits) are only checked for having no effect on RAM/inputs/outputs/masks.",
            "DESIGN.md §4 C10"),
    "C14": ("exploration",
            "model-based property testing: histories of port writes and external setters against a board reference model checked after every operation; threshold-neighbourhood enumeration; exhaustive 2^32 f32 sweep in thorough",
            "After every operation of a generated history (writes to 0xF0-0xF3 with all byte values, voltage setters with exact thresholds b/100 +- 1 ulp, in-range, out-of-range, NaN/inf and raw bit patterns, jumpers, UIO pins, digital input) the board must show: clamped stored voltages, DAC voltage b/100, comparator bits per the f32 comparison (comparator 2 on max(input 2, temperature)), jumper bits and input port as applied, UIO pins visible iff configured as input, interrupt flip-flop and source flag raised exactly on the configured transition of the selected source by an external change or comparator move and never otherwise, and the fan period 255 - b within +-1.",
            "Trusted: board model in harness/src/props/c14.rs. Comparator bit unconstrained within 1e-6 of a non-representable threshold; UOR effect on UIO bits and flag clearing unconstrained.",
            "DESIGN.md §4 C14"),
    "C08": ("exploration",
            "exhaustive enumeration against a documented function table (differential oracle)",
            "All 2 097 152 ALU input points are enumerated in both tiers and compared (result, carry, zero, negative) with a function table written from the documentation in 16-bit arithmetic; any single-entry deviation of the ALU is detected.",
            "Trusted: the reference table in harness/src/props/c08.rs (written from the AluSelect doc comments and the property statement).",
            "DESIGN.md §4 C08"),
}

CHECKS["C17"] = ("exploration",
    "model-based stateful testing of the interactive session through a headless main-loop hook: proptest-generated key scripts, frame drawn at a generated terminal size after every key, shadow Machine driven by a reference command grammar, catch_unwind for crashes",
    "Key scripts (characters incl. multi-byte/combining/wide, Enter, Tab/BackTab, arrows, Home/End, Backspace/Delete, Ctrl keys, unhandled keys, typed command lines from the grammar in every case/spacing/radix, values above 255, trailing text, unknown words, load of valid/invalid/missing/non-UTF-8/directory paths) are fed one key at a time into the real Tui::maintain/handle_event and the Interface is drawn into a TestBackend of a generated size (1x1..250x100, emphasis on the 76x28 guard). After every key: no panic, cursor index within the text, auto-run flag and selected part as expected, and the session's Machine equal to a shadow Machine on which the harness performed the documented effect: Ctrl keys and Enter-on-empty-line as the library calls of the same name, a submitted line classified by a reference grammar as valid (that call), invalid (unchanged + notification; in particular any number above 255 in any radix) or unconstrained (re-synchronised); while a notification shows a key only dismisses it; quit/Ctrl+C end the session.",
    "Trusted: the verif-hooks step (injected keys, TestBackend, 37 edges per frame instead of the wall-clock slice) stands for the crossterm loop; reference grammar in harness-bin/src/c17.rs, self-checked on the README examples. Programs with a C06 known-finding shape are never loaded.",
    "DESIGN.md §4 C17")

PENDING_REASON = "check not built yet in this session (work in progress, see DESIGN.md §4a order of work); not claimed until it is silent on the unchanged tree and shown sensitive"


def main():
    hooks_commits = []
    try:
        out = subprocess.check_output(["git", "-C", "/repo", "log", "--format=%h %s"], text=True)
        for line in out.splitlines():
            h, s = line.split(" ", 1)
            if "verif-hooks" in s or "verif hook" in s.lower():
                hooks_commits.append(h)
    except Exception:
        pass
    checks = []
    for pid in ALL:
        if pid not in CHECKS:
            continue
        cat, tech, text, note, ref = CHECKS[pid]
        checks.append({
            "property_id": pid,
            "quick_cmd": "./check.sh %s quick" % pid,
            "thorough_cmd": "./check.sh %s thorough" % pid,
            "evidence_file": "/verif/evidence/%s.json" % pid,
            "replay_cmd_template": "./check.sh %s quick --replay {path}" % pid,
            "engine": "h2a-bin" if pid == "C17" else "h2a",
            "level_claimed": {"category": cat, "text": text, "design_ref": ref},
            "level_note": note,
            "technique": tech,
        })
    na = [{"property_id": p, "reason": PENDING_REASON} for p in ALL if p not in CHECKS]
    m = {
        "version": 1,
        "setup_cmd": "./setup.sh",
        "hooks": {
            "guard": "cargo feature `verif-hooks` (emulator-2a-lib and emulator-2a), off by default",
            "enable": "the harness crates depend on /repo/emulator-2a-lib by path with features=[\"verif-hooks\"]; harness-bin compiles /repo/emulator-2a/src via #[path] with its own verif-hooks feature on",
            "baseline_off_cmd": "cd /repo && cargo test --workspace --no-fail-fast --offline",
            "source_commits": hooks_commits,
            "add_only": True,
        },
        "engines": [
            {"name": "h2a", "path": "/verif/harness", "serves_properties": [p for p in ALL if p in CHECKS and p != "C17"],
             "kind_free_text": "Rust binary `check`: proptest-driven generators (fixed seed), exhaustive enumerators, reference models; path dependency on /repo/emulator-2a-lib with verif-hooks; C12/C06 additionally spawn the repository's own binary built with hooks off"},
            {"name": "h2a-bin", "path": "/verif/harness-bin", "serves_properties": ["C17"],
             "kind_free_text": "Rust binary `check-bin`: compiles /repo/emulator-2a/src (the binary crate has no library target) via #[path] modules with its verif-hooks feature on; proptest key scripts against the TUI"},
        ],
        "checks": checks,
        "not_applicable": na,
        "notes": "Thorough tier = the same harness with 10-100x counts plus a coverage-guided libFuzzer stage (fuzz.sh: fz_text (raw text) and fz_tokens (line-template decoder) for C02/C03/C06/C16, fz_machine for C05/C11/C13, fz_tui for C17; artifacts are re-checked by the deterministic replay path). Every check rebuilds the harness against /repo's working tree (cargo path dependency) before running. exit 0 held / 1 VIOLATION / 2 inconclusive. Known findings: /verif/known-findings.txt.",
    }
    if not na:
        del m["not_applicable"]
    with open("/verif/MANIFEST.json", "w") as f:
        json.dump(m, f, indent=1)
        f.write("\n")


if __name__ == "__main__":
    main()
