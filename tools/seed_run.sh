#!/bin/bash
# usage: tools/seed_run.sh <seed name> <property ids...>   — apply a kept seeded change to /repo's working tree,
# run the quick checks, restore the tree.  Appends to seeded/<name>/confirm.log.
n=$1; shift
[ -n "$(git -C /repo status --porcelain)" ] && { echo "/repo not clean"; exit 2; }
git -C /repo apply /verif/seeded/$n/patch.diff || exit 2
for P in "$@"; do
  OUT=$(VERIF_WATCHDOG_S=600 /verif/check.sh $P quick 2>&1); RC=$?
  echo "recheck $P quick: exit $RC $(echo "$OUT" | grep 'signature:' | head -3 | tr '\n' ' ')" | tee -a /verif/seeded/$n/confirm.log
done
git -C /repo checkout -- .
