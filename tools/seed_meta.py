#!/usr/bin/env python3
"""Builds /verif/seeded/<name>/meta.json from the agent's meta and my confirm.log, and the
overview table /verif/seeded/README.md."""
import json, os, re
root = "/verif/seeded"
rows = []
for name in sorted(os.listdir(root)):
    d = os.path.join(root, name)
    if not os.path.isdir(d) or not os.path.exists(os.path.join(d, "confirm.log")):
        continue
    agent = {}
    try:
        agent = json.load(open(os.path.join(d, "meta.agent.json")))
    except Exception:
        pass
    log = open(os.path.join(d, "confirm.log")).read()
    confirmed = "CONFIRMED=1" in log
    checks = {}
    for m in re.finditer(r"check (C\d+) quick: exit (\d+)\s*(.*)", log):
        sigs = re.findall(r"signature: (\S+)", m.group(3))
        checks[m.group(1)] = {"exit": int(m.group(2)), "reported": m.group(2) == "1", "signatures": sigs}
    meta = {
        "property": agent.get("property", name.split("-")[0]),
        "origin": "written by a fresh sub-agent that was given only the property text and its own git worktree of /repo",
        "summary": agent.get("summary", ""),
        "needs_to_manifest": agent.get("needs_to_manifest", ""),
        "files_changed": agent.get("files_changed", []),
        "demo": {"files": [l.strip() for l in open(os.path.join(d, "demo_files.txt")) if l.strip()], "cmd": agent.get("demo_cmd", "")},
        "confirmed_by_me": confirmed,
        "what_i_ran": "tools/seed_confirm.sh: fresh scratch worktree of /repo HEAD; `git apply patch.diff`; `cargo test --workspace --no-fail-fast --offline` without the demo (must pass); demo with the change (must fail); `git apply -R`; demo without the change (must pass); worktree removed. Then `git -C /repo apply patch.diff`, quick checks, `git -C /repo checkout -- .`",
        "confirm_log": [l for l in log.splitlines() if l.strip()],
        "checks": checks,
    }
    json.dump(meta, open(os.path.join(d, "meta.json"), "w"), indent=1)
    det = ", ".join("%s (%s)" % (k, "; ".join(v["signatures"][:2])) for k, v in checks.items() if v["reported"])
    miss = ", ".join(k for k, v in checks.items() if not v["reported"])
    rows.append((name, meta["property"], "yes" if confirmed else "NO", meta["needs_to_manifest"].replace("\n", " ")[:230], det, miss))
with open(os.path.join(root, "README.md"), "w") as f:
    f.write("# Seeded breaking changes\n\nEach directory holds `patch.diff` (apply with `git -C /repo apply`), the demonstration under `demo/`, the sub-agent's own `meta.agent.json`, my `confirm.log` and the combined `meta.json`.\nNone of these changes is ever committed to /repo.\n\n")
    f.write("| seed | property | confirmed | needs to manifest | reported by (quick tier, signatures) | run but silent |\n|---|---|---|---|---|---|\n")
    for r in rows:
        f.write("| %s | %s | %s | %s | %s | %s |\n" % r)
print(len(rows), "seeds")
