#!/bin/bash
# usage: tools/seed_confirm.sh <agent worktree dir> <seed name, e.g. C14-a> <property id> [more property ids to run]
# 1. copies patch.diff / demo / meta.json into /verif/seeded/<name>/
# 2. confirms in a fresh scratch worktree of /repo HEAD: suite passes with the change (demo excluded),
#    demo fails with the change, demo passes without it
# 3. applies the change to /repo's working tree, runs the quick check(s), restores the tree
# Appends the outcome to /verif/seeded/<name>/confirm.log
set -u
SRC="$1"; NAME="$2"; shift 2
PROPS="$@"
DEST=/verif/seeded/$NAME
mkdir -p "$DEST"
cp "$SRC/patch.diff" "$DEST/patch.diff" || exit 2
cp "$SRC/meta.json" "$DEST/meta.agent.json" 2>/dev/null
# demo files: everything untracked in the agent worktree except deliverables and target
(cd "$SRC" && git ls-files --others --exclude-standard | grep -v -E '^(target/|patch.diff$|meta.json$)' ) > "$DEST/demo_files.txt"
mkdir -p "$DEST/demo"
while read -r f; do mkdir -p "$DEST/demo/$(dirname "$f")"; cp "$SRC/$f" "$DEST/demo/$f"; done < "$DEST/demo_files.txt"
LOG="$DEST/confirm.log"; : > "$LOG"
W=/tmp/seedchk/$NAME
rm -rf "$W"; git -C /repo worktree prune
git -C /repo worktree add -q --detach "$W" HEAD || exit 2
cp -r /repo/target "$W/target"
cd "$W"
# tracked-file edits that belong to the demo (e.g. a `mod seed_demo;` line) = agent's full diff minus patch.diff
(cd "$SRC" && git diff) > "$DEST/full.agent.diff"
: > "$DEST/demo_tracked.diff"
if git apply "$DEST/full.agent.diff" 2>/dev/null && git apply -R "$DEST/patch.diff" 2>/dev/null; then git diff > "$DEST/demo_tracked.diff"; fi
git checkout -q -- . ; git clean -fdq -e target
DEMO_CMD=$(python3 -c "
import json,re
c=json.load(open('$DEST/meta.agent.json')).get('demo_cmd','')
c=re.sub(r'^\s*cd\s+/tmp/seed/\S+\s*&&\s*','',c)
print(c)" 2>/dev/null)
echo "demo_cmd: $DEMO_CMD" | tee -a "$LOG"
if ! git apply "$DEST/patch.diff"; then echo "RESULT patch does not apply" | tee -a "$LOG"; cd /; git -C /repo worktree remove --force "$W"; exit 1; fi
SUITE=$(cargo test --workspace --no-fail-fast --offline 2>&1 | grep -E "^test result" | tr '\n' ' ')
echo "suite with change (demo excluded): $SUITE" | tee -a "$LOG"
SUITE_OK=1; echo "$SUITE" | grep -q "FAILED\|[1-9][0-9]* failed" && SUITE_OK=0
[ -z "$SUITE" ] && SUITE_OK=0
# add demo
while read -r f; do mkdir -p "$(dirname "$f")"; cp "$DEST/demo/$f" "$f"; done < "$DEST/demo_files.txt"
[ -s "$DEST/demo_tracked.diff" ] && git apply "$DEST/demo_tracked.diff"
bash -c "$DEMO_CMD" > "$DEST/demo_with_change.out" 2>&1; RC_WITH=$?
git apply -R "$DEST/patch.diff"
bash -c "$DEMO_CMD" > "$DEST/demo_without_change.out" 2>&1; RC_WITHOUT=$?
echo "demo exit with change: $RC_WITH ; without change: $RC_WITHOUT ; suite ok: $SUITE_OK" | tee -a "$LOG"
cd /; git -C /repo worktree remove --force "$W"; rm -rf "$W"
CONFIRMED=0
if [ "$SUITE_OK" = 1 ] && [ "$RC_WITH" != 0 ] && [ "$RC_WITHOUT" = 0 ]; then CONFIRMED=1; fi
echo "CONFIRMED=$CONFIRMED" | tee -a "$LOG"
# run my checks against it
if [ -n "$(git -C /repo status --porcelain)" ]; then echo "/repo not clean, skipping checks" | tee -a "$LOG"; exit 2; fi
git -C /repo apply "$DEST/patch.diff"
for P in $PROPS; do
  OUT=$(VERIF_WATCHDOG_S=600 /verif/check.sh $P quick 2>&1); RC=$?
  SIG=$(echo "$OUT" | grep "signature:" | head -3 | tr '\n' ' ')
  echo "check $P quick: exit $RC $SIG" | tee -a "$LOG"
done
git -C /repo checkout -- .
git -C /repo status --porcelain | head -3
