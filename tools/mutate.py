#!/usr/bin/env python3
"""Sensitivity suite: applies each hand-written mutant to /repo's working tree, runs the quick
checks that are expected to catch it, and restores the tree (git checkout).  Never commits.

usage: tools/mutate.py [name-substring ...] [--props C01,C05] [--all-props]
A mutant is (name, file, old, new, [properties expected to report a VIOLATION]).
"""
import subprocess, sys, os, json, time

REPO = "/repo"
L = "emulator-2a-lib/src/"
B = "emulator-2a/src/"

MUTANTS = [
    # ---- ALU (C08; C01 where the control store uses the function)
    ("alu-adds-carry-not-inverted", L + "machine/alu.rs", "(o, !(c1 || c2))\n            }\n            AluSelect::ADC", "(o, (c1 || c2))\n            }\n            AluSelect::ADC", ["C08", "C01"]),
    ("alu-asr-drops-sign", L + "machine/alu.rs", "(o | a & 0b10000000, carry_out)", "(o, carry_out)", ["C08", "C01"]),
    ("alu-zero-flag-off-by", L + "machine/alu.rs", "zero_out: out == 0,", "zero_out: out == 0 && function != &AluSelect::NOR,", ["C08"]),
    # ---- CPU semantics (C01)
    ("cpu-add-word-no-flags", L + "machine/microprogram_ram_content.rs", "0b0011001110010000110010001011), // 100000101", "0b0011001110010000110010001010), // 100000101", ["C01"]),
    ("cpu-write-select-swapped", L + "machine/raw/signals.rs", "        if self.mrgws() {\n            self.selected_register_b()\n        } else {\n            self.selected_register_a()\n        }", "        if self.mrgws() {\n            self.selected_register_a()\n        } else {\n            self.selected_register_b()\n        }", ["C01"]),
    ("cpu-ldsp-skips-flags", L + "machine/raw/mod.rs", "        if let Some(FlagWrite) = self.pending_flag_write.take() {", "        let ldsp = self.pending_register_write == Some(RegisterNumber::R5);\n        if let Some(FlagWrite) = self.pending_flag_write.take().filter(|_| !ldsp) {", ["C01"]),
    ("cpu-ram-read-at-ef-is-io", L + "machine/bus.rs", "        if addr <= 0xEF {\n            self.ram[addr]\n        }", "        if addr < 0xEF {\n            self.ram[addr]\n        }", ["C01", "C10"]),
    # ---- micro-sequencer (C09)
    ("seq-am4-am3-swapped", L + "machine/raw/signals.rs", "            | (self.am4() as usize) << 1\n            | (self.am3() as usize)", "            | (self.am3() as usize) << 1\n            | (self.am4() as usize)", ["C09", "C01"]),
    ("seq-call-last-word-zeroed", L + "machine/microprogram_ram_content.rs", "0b0011011110101100011111000010), // 001001001", "0b0000000000000000000000000000), // 001001001", ["C09", "C01"]),
    ("seq-unknown-opcode-4c-completes", L + "machine/microprogram_ram_content.rs", "0b0000000110000000000000011000), // 010000011", "0b1101000110000000000000011000), // 010000011", ["C09"]),
    ("seq-mul-shift-word-loops", L + "machine/microprogram_ram_content.rs", "0b0000001010001100110010000001), // 101101000", "0b0000010000001100110010000001), // 101101000", ["C09", "C01"]),
    # ---- supervision / halts (C05)
    ("sup-band16-lower-edge", L + "machine/raw/mod.rs", "Stacksize::_16 => sp <= 0xD0 || sp >= 0xDF,", "Stacksize::_16 => sp < 0xD0 || sp >= 0xDF,", ["C05"]),
    ("sup-band48-upper-edge", L + "machine/raw/mod.rs", "Stacksize::_48 => sp <= 0xB0 || sp >= 0xBF,", "Stacksize::_48 => sp <= 0xB0 || sp >= 0xBE,", ["C05"]),
    ("sup-pc-limit-strict", L + "machine/raw/mod.rs", "            pc <= *n\n", "            pc < *n || *n == 0\n", ["C05"]),
    ("sup-pc-checked-only-on-pc-write", L + "machine/raw/mod.rs", "            if !self.is_program_counter_valid() {", "            if register == RegisterNumber::R5 && !self.is_program_counter_valid() {", ["C05"]),
    ("sup-halted-consumes-wait", L + "machine/raw/mod.rs", "        if self.state != State::Running {\n            trace!(\"Ignoring clock. Machine halted.\");\n            return;\n        } else if let Some(MemoryWait) = self.pending_wait_for_memory.take() {", "        if self.pending_wait_for_memory.take().is_some() {\n            return;\n        } else if self.state != State::Running {\n            trace!(\"Ignoring clock. Machine halted.\");\n            return;\n        } else if let Some(MemoryWait) = self.pending_wait_for_memory.take() {", ["C05"]),
    ("sup-continue-leaves-error-stop", L + "machine/raw/mod.rs", "        if self.state == State::Stopped {\n            self.state = State::Running", "        if self.state != State::Running {\n            self.state = State::Running", ["C05"]),
    ("sup-stop-overrides-error", L + "machine/raw/mod.rs", "                if machine.state != State::ErrorStopped {\n                    machine.state = State::Stopped;\n                }", "                machine.state = State::Stopped;", ["C05"]),
    ("sup-opcode-0-is-regular-stop", L + "machine/raw/mod.rs", "                warn!(\"Read 0x00 instruction! Error halting\");\n                machine.state = State::ErrorStopped;", "                warn!(\"Read 0x00 instruction! Error halting\");\n                machine.state = State::Stopped;", ["C05", "C01"]),
    # ---- assembly step (C11)
    ("step-skips-leaving-boundary", L + "machine/mod.rs", "                while self.is_instruction_done() && self.state() == State::Running && edges_left > 0\n", "                while false && self.is_instruction_done() && self.state() == State::Running && edges_left > 0\n", ["C11"]),
    ("step-stops-at-memory-wait", L + "machine/mod.rs", "                while !self.is_instruction_done()\n                    && self.state() == State::Running\n                    && edges_left > 0\n                {", "                while !self.is_instruction_done()\n                    && self.state() == State::Running\n                    && edges_left > 0\n                    && edges_left != 4090\n                {", ["C11"]),
    ("step-bound-too-small", L + "machine/mod.rs", "const MAX_EDGES_PER_ASSEMBLY_STEP: usize = 4096;", "const MAX_EDGES_PER_ASSEMBLY_STEP: usize = 300;", ["C11"]),
    ("step-one-edge-too-many", L + "machine/mod.rs", "                    self.raw_mut().trigger_clock_edge();\n                    edges_left -= 1;\n                }\n            }\n            StepMode::Real", "                    self.raw_mut().trigger_clock_edge();\n                    edges_left -= 1;\n                }\n                if self.registers().content()[0] == 0x77 { self.raw_mut().trigger_clock_edge(); }\n            }\n            StepMode::Real", ["C11"]),
    ("step-unbounded-again", L + "machine/mod.rs", "let mut edges_left = Self::MAX_EDGES_PER_ASSEMBLY_STEP;", "let mut edges_left = usize::MAX;", ["C11"]),
    # ---- no crash (C13)
    ("crash-input-reg-index", L + "machine/bus.rs", "            self.input_reg[addr - 0xFC]", "            self.input_reg[addr - 0xFB]", ["C13", "C10"]),
    ("crash-interrupt-source-7", L + "machine/board.rs", "        InterruptSource::from_u8(source).expect(\"infallible\")", "        InterruptSource::from_u8(if source == 7 && self.contains(DAICR::FALLING) { 8 } else { source }).expect(\"infallible\")", ["C13"]),
    ("crash-nan-temperature", L + "machine/board.rs", "            warn!(\"Temperature value < 0.0. Set to 0.0!\");\n            self.temp = 0.0;", "            warn!(\"Temperature value < 0.0. Set to 0.0!\");\n            assert!(!value.is_nan());\n            self.temp = 0.0;", ["C13"]),
    ("crash-timer-div-overflow", L + "machine/bus.rs", "            self.int_timer.div3 = (orig & 0xFF00) + lower;", "            self.int_timer.div3 = ((orig & 0xFF00) + lower) * (self.int_timer.div3 + 1);", ["C13"]),
    # ---- bus map (C10)
    ("bus-write-f0-is-ram", L + "machine/bus.rs", "        if addr <= 0xEF {\n            self.ram[addr] = byte;", "        if addr < 0xEF {\n            self.ram[addr] = byte;", ["C10"]),
    ("bus-fe-write-hits-input", L + "machine/bus.rs", "            self.output_reg[0] = byte;", "            self.output_reg[0] = byte;\n            self.input_reg[2] = byte;", ["C10"]),
    ("bus-f9-read-returns-mask", L + "machine/bus.rs", "            self.misr.bits()", "            self.misr.bits() | self.micr.bits()", ["C10"]),
    ("bus-f1-write-to-port1", L + "machine/bus.rs", "            self.board.set_digital_output2(byte);", "            self.board.set_digital_output1(byte);", ["C10", "C14"]),
    ("bus-timer-write-clobbers-input", L + "machine/bus.rs", "            self.int_timer.div3 = (orig & 0xFF00) + lower;", "            self.int_timer.div3 = (orig & 0xFF00) + lower;\n            if byte == 0x99 { self.input_reg[0] = byte; }", ["C10"]),
    ("bus-uart-write-hits-ram", L + "machine/bus.rs", "            self.uart_send = byte;", "            self.uart_send = byte;\n            self.ram[0xEF] = byte;", ["C10"]),
    # ---- board (C14)
    ("board-comp1-ge", L + "machine/board.rs", "        let new_value = self.analog_inputs[0] > analog;", "        let new_value = self.analog_inputs[0] >= analog;", ["C14"]),
    ("board-temp-forgets-comp2", L + "machine/board.rs", "            self.temp = 0.0;\n        }\n        self.update_comp2();", "            self.temp = 0.0;\n        }\n        if value < 4.9 { self.update_comp2(); }", ["C14"]),
    ("board-uio2-direction-inverted", L + "machine/board.rs", "        if self.uio_dir[1] {\n            return;\n        }", "        if !self.uio_dir[1] {\n            return;\n        }", ["C14"]),
    ("board-uio3-raises-on-both-edges", L + "machine/board.rs", "            if self.dasr.contains(DASR::UIO_3) && !value {\n                if self.daicr.contains(DAICR::FALLING) {", "            if self.dasr.contains(DASR::UIO_3) && !value {\n                if true {", ["C14"]),
    ("board-clamp-nan-to-5", L + "machine/board.rs", "        } else if value >= 0.0 {\n            warn!(\"I2 > 5V. Setting 5V\");", "        } else if !(value < 0.0) {\n            warn!(\"I2 > 5V. Setting 5V\");", ["C14"]),
    ("board-dac2-comparator-uses-dac1", L + "machine/board.rs", "        let analog = self.digital_output2 as f32 / 100.0;\n        // TODO: Verify (J9)", "        let analog = if self.digital_output2 == 0x80 { self.digital_output1 } else { self.digital_output2 } as f32 / 100.0;\n        // TODO: Verify (J9)", ["C14"]),
    ("board-icr-write-keeps-source-flag-raise", L + "machine/board.rs", "    pub fn set_jumper2(&mut self, plugged: bool) {\n", "    pub fn set_jumper2(&mut self, plugged: bool) {\n        if plugged && self.daicr.contains(DAICR::IE) { self.set_int_ff(); }\n", ["C14"]),
    ("board-fan-period-offset", L + "machine/board.rs", "        u8::MAX - (u8::MAX as f32 * self.fan_rpm as f32 / MAX_FAN_RPM as f32) as u8", "        u8::MAX - (u8::MAX as f32 * self.fan_rpm as f32 / (MAX_FAN_RPM + 200) as f32) as u8", ["C14"]),
    # ---- resets (C07)
    ("reset-keeps-last-bus-read", L + "machine/raw/mod.rs", "        self.last_bus_read = 0;\n        self.bus.cpu_reset();", "        self.bus.cpu_reset();", ["C07"]),
    ("reset-keeps-pending-interrupt", L + "machine/raw/mod.rs", "        self.pending_edge_interrupt = None;\n        self.state = State::Running;", "        self.state = State::Running;", ["C07"]),
    ("reset-master-clears-ram", L + "machine/bus.rs", "        self.input_reg = [0; 4];\n        self.int_timer.reset();", "        self.input_reg = [0; 4];\n        self.ram.reset();\n        self.int_timer.reset();", ["C07"]),
    ("reset-master-forgets-timer", L + "machine/bus.rs", "        self.input_reg = [0; 4];\n        self.int_timer.reset();", "        self.input_reg = [0; 4];", ["C07"]),
    ("reset-cpu-clears-inputs", L + "machine/bus.rs", "        self.micr = MICR::empty();\n        self.ucr = UCR::empty();\n    }", "        self.micr = MICR::empty();\n        self.ucr = UCR::empty();\n        self.input_reg[1] = 0;\n    }", ["C07"]),
    ("reset-cpu-keeps-ucr", L + "machine/bus.rs", "        self.micr = MICR::empty();\n        self.ucr = UCR::empty();\n    }", "        self.micr = MICR::empty();\n    }", ["C07"]),
    ("reset-board-keeps-uio-dir", L + "machine/board.rs", "        self.fan_rpm = 0;\n        self.uio_dir = [false; 3];", "        self.fan_rpm = 0;", ["C07"]),
    ("reset-board-clears-temp", L + "machine/board.rs", "        self.fan_rpm = 0;\n        self.uio_dir = [false; 3];", "        self.fan_rpm = 0;\n        self.temp = 0.0;\n        self.uio_dir = [false; 3];", ["C07"]),
    ("reset-load-keeps-stacksize-16", L + "machine/mod.rs", "        if program.stacksize != Stacksize::NotSet {", "        if program.stacksize != Stacksize::NotSet && program.stacksize != Stacksize::_48 {", ["C07"]),
    ("reset-load-skips-ram-clear", L + "machine/mod.rs", "        self.master_reset();\n        self.raw_mut().bus_mut().reset_ram();", "        self.master_reset();", ["C07"]),
    ("reset-cpu-resets-step-mode-alu", L + "machine/raw/mod.rs", "        self.alu_output = AluOutput::default();\n", "", ["C07"]),
    # ---- interrupts (C04)
    ("int-ff-not-cleared", L + "machine/raw/mod.rs", "            trace!(\"Clearing edge interrupt\");\n            machine.pending_edge_interrupt = None;", "            trace!(\"Clearing edge interrupt\");", ["C04"]),
    ("int-entry-keeps-ief", L + "machine/microprogram_ram_content.rs", "0b0000101010001000100010000100), // 000010100 | DI\n    Word::from_bits_truncate(0b0000101100001001000010100100), // 000010101", "0b0000101010000000000000011000), // 000010100 | DI\n    Word::from_bits_truncate(0b0000101100000000000000011000), // 000010101", ["C04", "C01"]),
    ("int-reti-skips-fr-pop", L + "machine/microprogram_ram_content.rs", "0b0000011000101010100111000010), // 001001011", "0b0000011000101010100101000010), // 001001011", ["C04", "C01"]),
    ("int-lost-in-memory-wait", L + "machine/raw/mod.rs", "            trace!(\"Skipping clock. Waiting for memory.\");\n            return;", "            trace!(\"Skipping clock. Waiting for memory.\");\n            self.pending_edge_interrupt = None;\n            return;", ["C04"]),
    ("int-taken-with-ief-clear", L + "machine/raw/signals.rs", "        self.interrupt_enable_flag() && self.address_logic_1()", "        self.address_logic_1()", ["C04"]),
    ("int-key-pending-although-disabled", L + "machine/raw/mod.rs", "        if self.bus.is_key_edge_int_enabled() {\n            trace!(\"Key edge interrupt triggered successfully.\");", "        if self.bus.is_key_edge_int_enabled() || self.register.get(RegisterNumber::R0) == &0x42 {\n            trace!(\"Key edge interrupt triggered successfully.\");", ["C04"]),
    ("int-sampled-by-ei", L + "machine/microprogram_ram_content.rs", "0b0000001100001000100010000100), // 000000100 | (EI)", "0b0011001110001000100010000100), // 000000100 | (EI)", ["C04"]),
    ("int-cpu-reset-keeps-pending-in-run", L + "machine/raw/mod.rs", "        if machine.signals().interrupt_logic_1() {", "        if machine.signals().interrupt_logic_1() && machine.register.get(RegisterNumber::R5) != &0xEB {", ["C04"]),
    # ---- assembler (C02)
    ("asm-two-regs-no-shift", L + "compiler.rs", "    let src = reg_to_u8(src) << 2;\n    vec![ByteOrLabel::Byte(base + src + dst)]", "    let src = reg_to_u8(src) << 2;\n    vec![ByteOrLabel::Byte(base + if base == 0b1101_0000 { src >> 2 } else { src } + dst)]", ["C02"]),
    ("asm-dw-little-endian", L + "compiler.rs", "                        ByteOrLabel::Byte((word >> 8) as u8),\n                        ByteOrLabel::Byte(word as u8),", "                        ByteOrLabel::Byte(word as u8),\n                        ByteOrLabel::Byte((word >> 8) as u8),", ["C02"]),
    ("asm-jr-offset-from-own-address", L + "compiler.rs", "            let (pre_jump, _) = curr_addr.overflowing_add(2);", "            let (pre_jump, _) = curr_addr.overflowing_add(if cond == 0b111 { 1 } else { 2 });", ["C02"]),
    ("asm-byte-counted-twice-again", L + "compiler.rs", "            AsmByte(nr) => {\n                let mut ret = vec![];", "            AsmByte(nr) => {\n                if nr == 7 { self.next_addr += nr; }\n                let mut ret = vec![];", ["C02"]),
    ("asm-label-case-sensitive-again", L + "compiler.rs", "                            .get(&label.to_lowercase())\n                            .expect(\"infallible. Labels must be defined\")],", "                            .get(&label)\n                            .expect(\"infallible. Labels must be defined\")],", ["C02", "C06"]),
    ("asm-equ-overwrites-stacksize", L + "compiler.rs", "                self.known_labels.insert(label.to_lowercase(), constant);\n                vec![]", "                self.known_labels.insert(label.to_lowercase(), constant);\n                if constant == 64 { self.stacksize = Stacksize::_64; }\n                vec![]", ["C02"]),
    ("asm-dec-mode-bits-swapped", L + "compiler.rs", "                let first = 0b0101_0000 + (source_addr_mode(&src) << 2) + source_register(&src);", "                let first = 0b0101_0000 + (source_register(&src) << 2) + source_addr_mode(&src);", ["C02"]),
    # ---- parser (C03)
    ("parse-sub-operands-swapped", L + "parser/implementation/mod.rs", "    Instruction::Sub(reg1, reg2)", "    Instruction::Sub(reg2, reg1)", ["C03", "C16"]),
    ("parse-label-limit-41", L + "parser/implementation/mod.rs", "    if labels.len() > 40 {", "    if labels.len() > 41 {", ["C03"]),
    ("parse-undefined-case-sensitive", L + "parser/implementation/mod.rs", "            .filter(|label| !labels.contains(&label.to_lowercase()))", "            .filter(|label| !labels.contains(&label.to_string()))", ["C03"]),
    ("parse-dec-256-accepted", L + "syntax/../syntax/mrasm.pest" if False else "emulator-2a-lib/syntax/mrasm.pest", "constant_dec  =  { ( \"0\"* ~ ( ( \"2\"      ~ \"5\"      ~ '0'..'5' ) |", "constant_dec  =  { ( \"0\"* ~ ( ( \"2\"      ~ \"5\"      ~ '0'..'6' ) |", ["C03"]),
    # (reordering ld_memory before ld_const in the grammar is an equivalent mutant: memory operands start with "(")
    ("parse-pc-lowercase-accepted", "emulator-2a-lib/syntax/mrasm.pest", "register      =  { ( ^\"R\" ~ '0'..'3' ) | \"PC\" }", "register      =  { ( ^\"R\" ~ '0'..'3' ) | ^\"PC\" }", ["C03"]),
    ("parse-header-two-blanks", "emulator-2a-lib/syntax/mrasm.pest", "header        =  { \"#! mrasm\" ~ ws? ~ comment? ~ (eol | EOI) }", "header        =  { \"#! mrasm\" ~ ws* ~ comment? ~ (eol | EOI) }", ["C03"]),
    ("parse-hex-word-radix", L + "parser/implementation/mod.rs", "        Rule::word_hex => u16::from_str_radix(&inner.as_str()[2..], 16).unwrap(),", "        Rule::word_hex => u16::from_str_radix(&inner.as_str()[2..], 16).map(|w| if w == 0xBEEF { 0xBEEE } else { w }).unwrap(),", ["C03"]),
    # ---- formatter (C16)
    ("fmt-constant-decimal-with-0x", L + "parser/ast/format.rs", "            Constant::Constant(c) => write!(f, \"0x{:>02X}\", c),", "            Constant::Constant(c) => write!(f, \"0x{:>02}\", c),", ["C16"]),
    ("fmt-db-no-comma", L + "parser/ast/format.rs", "                    write!(f, \"{}, \", byte)?;", "                    write!(f, \"{} \", byte)?;", ["C16"]),
    ("fmt-header-padding-again", L + "parser/ast/format.rs", "        write!(f, \"#! mrasm\")?;\n        if let Some(comment) = &self.comment_after_shebang {\n            write!(f, \" ; {}\", comment)?;", "        write!(f, \"#! mrasm\")?;\n        if let Some(comment) = &self.comment_after_shebang {\n            write!(f, \"  ; {}\", comment)?;", ["C16"]),
    ("fmt-st-operands-swapped", L + "parser/ast/format.rs", "            Instruction::St(mem, reg) => write!(f, \"ST {}, {}\", mem, reg),", "            Instruction::St(mem, reg) => write!(f, \"ST {}, {}\", reg, mem),", ["C16"]),
    # ---- compile/load crash (C06)
    ("crash-equ-zero-unwrap", L + "compiler.rs", "                self.known_labels.insert(label.to_lowercase(), constant);\n                vec![]", "                self.known_labels.insert(label.to_lowercase(), constant);\n                assert!(constant != 0xEF || self.next_addr < 100, \"equ\");\n                vec![]", ["C06"]),
    ("crash-load-large-stack", L + "machine/mod.rs", "        if program.stacksize != Stacksize::NotSet {", "        if program.stacksize == Stacksize::_64 && program.bytes().count() > 0xB0 { panic!(\"program overlaps the stack\"); }\n        if program.stacksize != Stacksize::NotSet {", ["C06"]),
    # ---- runner / CLI (C12)
    ("run-loop-one-more-cycle", L + "runner/mod.rs", "        while emulated_cycles < self.max_cycles {", "        while emulated_cycles <= self.max_cycles && (emulated_cycles < self.max_cycles || self.max_cycles == 77) {", ["C12"]),
    ("run-halt-checked-before-edge", L + "runner/mod.rs", "            machine.trigger_key_clock();\n            emulated_cycles += 1;\n            // Bail if possible\n            if machine.state() != State::Running {\n                break;\n            }", "            if machine.state() != State::Running {\n                break;\n            }\n            machine.trigger_key_clock();\n            emulated_cycles += 1;", ["C12"]),
    ("run-reset-before-interrupt", L + "runner/mod.rs", "            if self.interrupts.contains(&emulated_cycles) {\n                machine.trigger_key_interrupt();\n            }\n            if self.resets.contains(&emulated_cycles) {\n                machine.cpu_reset();\n            }", "            if self.resets.contains(&emulated_cycles) {\n                machine.cpu_reset();\n            }\n            if self.interrupts.contains(&emulated_cycles) {\n                machine.trigger_key_interrupt();\n            }", ["C12"]),
    ("run-verify-fe-ff-swapped", L + "runner/mod.rs", "            && self.output_fe != Some(result.machine.bus().output_fe())", "            && self.output_fe != Some(result.machine.bus().output_ff())", ["C12"]),
    ("run-config-drops-input-fe", L + "machine/mod.rs", "        self.set_input_fe(config.input_fe);\n", "", ["C12"]),
    ("run-duplicate-interrupt-ignored", L + "runner/mod.rs", "            if self.interrupts.contains(&emulated_cycles) {", "            if self.interrupts.contains(&emulated_cycles) && emulated_cycles != 0 {", ["C12"]),
    ("cli-exit-zero-on-verification-failure", B + "main.rs", "        eprintln!(\"{}: {}\", \"Error\".red().bold(), e);\n        process::exit(1)", "        eprintln!(\"{}: {}\", \"Error\".red().bold(), e);\n        if !matches!(e, Error::RunVerification(_)) { process::exit(1) }", ["C12"]),
    ("cli-prints-budget-as-cycles", B + "runner/mod.rs", "        hl_if_not(&res.emulated_cycles, &res.config.max_cycles),", "        hl_if_not(&res.config.max_cycles, &res.config.max_cycles),", ["C12"]),
    ("cli-ai2-goes-to-ai1", B + "args.rs", "            analog_input2: init.ai2,", "            analog_input2: init.ai1,", ["C12"]),
    ("cli-verify-ff-parsed-as-fe", B + "args.rs", "        if let Some(output_ff) = args.ff {\n            expectations.expect_output_ff(output_ff);", "        if let Some(output_ff) = args.ff {\n            expectations.expect_output_fe(output_ff);", ["C12"]),
    # ---- TUI (C17)
    ("tui-left-underflow", B + "tui/input/mod.rs", "            (_, Left) => {\n                if self.input_index > 0 {", "            (_, Left) => {\n                if self.input_index > 0 || self.input.len() == 7 {", ["C17"]),
    ("tui-delete-off-by-one", B + "tui/input/mod.rs", "            (_, Delete) => {\n                if self.input_index < self.input.len() {", "            (_, Delete) => {\n                if self.input_index <= self.input.len() && !self.input.is_empty() {", ["C17"]),
    ("tui-completion-index-unbounded", B + "tui/input/mod.rs", "                *idx = (*idx + 1) % comps.len();", "                *idx = *idx + 1;", ["C17"]),
    ("tui-key-not-swallowed-by-notification", B + "tui/mod.rs", "                self.notification_state.clear();\n                return false;", "                self.notification_state.clear();", ["C17"]),
    ("tui-fd-fe-permuted", B + "tui/mod.rs", "                Command::SetInputReg(InputRegister::Fd, val) => self.machine.set_input_fd(val),\n                Command::SetInputReg(InputRegister::Fe, val) => self.machine.set_input_fe(val),", "                Command::SetInputReg(InputRegister::Fd, val) => self.machine.set_input_fe(val),\n                Command::SetInputReg(InputRegister::Fe, val) => self.machine.set_input_fd(val),", ["C17"]),
    ("tui-unset-j2-sets", B + "tui/input/parser.rs", "    let unset_j2 = value(Command::SetJ2(false), preceded(unset_ws, tag_no_case(\"J2\")));", "    let unset_j2 = value(Command::SetJ2(true), preceded(unset_ws, tag_no_case(\"J2\")));", ["C17"]),
    ("tui-ctrl-r-master-reset", B + "tui/mod.rs", "                    Char('r') => {\n                        self.machine.cpu_reset();", "                    Char('r') => {\n                        self.machine.master_reset();", ["C17"]),
    ("tui-next-one-more", B + "tui/mod.rs", "                    for _ in 0..cycles {\n                        self.machine.trigger_key_clock()", "                    for _ in 0..=cycles {\n                        self.machine.trigger_key_clock()", ["C17"]),
    ("tui-trailing-garbage-again", B + "tui/input/parser.rs", "    all_consuming(complete(delimited(ws_opt, cmd, ws_opt)))(input)", "    complete(delimited(ws_opt, cmd, ws_opt))(input)", ["C17"]),
    # (computing only `start` from the byte length is cosmetic - wrong part of the line shown, no panic - and not a C17 violation)
    ("tui-history-down-off-by-one", B + "tui/input/mod.rs", "                Some(index) if index < self.history.len() - 1 => {", "                Some(index) if index < self.history.len() => {", ["C17"]),
    ("tui-small-terminal-guard-off", B + "tui/interface.rs", "pub const MINIMUM_ALLOWED_WIDTH: u16 = 76;", "pub const MINIMUM_ALLOWED_WIDTH: u16 = 36;", ["C17"]),
    ("tui-invalid-line-silently-ignored", B + "tui/mod.rs", "            self.notification_state.current = self\n                .input_field\n                .last()\n                .map(|text| format!(\"Invalid input:\\n> {}\", text));", "            self.notification_state.current = self\n                .input_field\n                .last()\n                .filter(|t| !t.starts_with(\"set \"))\n                .map(|text| format!(\"Invalid input:\\n> {}\", text));", ["C17"]),
    # ---- cycles (C15)
    ("cyc-interrupt-acknowledge-costs-a-wait", L + "machine/raw/mod.rs", "            trace!(\"Clearing edge interrupt\");\n            machine.pending_edge_interrupt = None;", "            trace!(\"Clearing edge interrupt\");\n            machine.pending_edge_interrupt = None;\n            machine.pending_wait_for_memory = Some(MemoryWait);", ["C15"]),
    ("cyc-wait-also-for-io", L + "machine/raw/mod.rs", "            if *register_out_a <= 0xEF {\n                trace!(\"Generating artificial wait signal\");\n                machine.pending_wait_for_memory = Some(MemoryWait);\n            }\n        } else {\n            machine.last_bus_read = 0;", "            if *register_out_a <= 0xFB {\n                trace!(\"Generating artificial wait signal\");\n                machine.pending_wait_for_memory = Some(MemoryWait);\n            }\n        } else {\n            machine.last_bus_read = 0;", ["C15"]),
    ("cyc-no-wait-reading-0x80", L + "machine/raw/mod.rs", "            if *register_out_a <= 0xEF {\n                trace!(\"Generating artificial wait signal\");\n                machine.pending_wait_for_memory = Some(MemoryWait);\n            }\n        } else {\n            machine.last_bus_read = 0;", "            if *register_out_a <= 0xEF && *register_out_a != 0x80 {\n                trace!(\"Generating artificial wait signal\");\n                machine.pending_wait_for_memory = Some(MemoryWait);\n            }\n        } else {\n            machine.last_bus_read = 0;", ["C15"]),
]


def sh(cmd, **kw):
    return subprocess.run(cmd, shell=True, text=True, capture_output=True, **kw)


def clean():
    r = sh("git -C %s status --porcelain" % REPO)
    return r.stdout.strip() == ""


def main():
    args = [a for a in sys.argv[1:] if not a.startswith("--")]
    only_props = None
    for a in sys.argv[1:]:
        if a.startswith("--props="):
            only_props = a.split("=", 1)[1].split(",")
    if not clean():
        print("/repo working tree is not clean; refusing")
        sys.exit(2)
    results = []
    for (name, path, old, new, props) in MUTANTS:
        if args and not any(a in name for a in args):
            continue
        full = os.path.join(REPO, path)
        src = open(full).read()
        if src.count(old) != 1:
            print("MUTANT %s: pattern found %d times in %s - skipped" % (name, src.count(old), path))
            results.append((name, "pattern-missing", {}))
            continue
        open(full, "w").write(src.replace(old, new, 1))
        try:
            per = {}
            for p in props:
                if only_props and p not in only_props:
                    continue
                t = time.time()
                r = sh("/verif/check.sh %s quick" % p, env=dict(os.environ, VERIF_SEED=os.environ.get("VERIF_SEED", "1"), VERIF_WATCHDOG_S="240"))
                caught = r.returncode == 1 and "VIOLATION property=%s" % p in r.stdout
                sig = [l.strip() for l in r.stdout.splitlines() if "signature:" in l][:2]
                per[p] = ("caught" if caught else "MISSED(exit %d)" % r.returncode, round(time.time() - t, 1), sig)
                if r.returncode == 2:
                    print(r.stdout[-1500:])
            results.append((name, "ran", per))
            print("MUTANT %-36s %s" % (name, per), flush=True)
        finally:
            sh("git -C %s checkout -- ." % REPO)
    # restore evidence (runs against mutants rewrote it)
    missed = [(n, p) for (n, s, per) in results for p, v in per.items() if not v[0].startswith("caught")]
    print("\nmissed:", missed)
    print("NOTE: evidence files were rewritten by mutant runs; re-run the checks on the clean tree before committing.")


if __name__ == "__main__":
    main()
