#!/usr/bin/env python3
"""usage: tools/seed_prompt.py <property id> <suffix>   -> writes /tmp/seed/prompt_<ID><suffix>.txt and creates the worktree
Prompt = the property's text only (+ one-line notes on what earlier independent attempts did, so a new one differs)."""
import json, glob, os, sys, subprocess
pid, suf = sys.argv[1], sys.argv[2]
name = pid + suf
wt = "/tmp/seed/" + name
prop = [json.loads(l) for l in open("/verif/properties.jsonl") if json.loads(l)["id"] == pid][0]
earlier = []
for d in sorted(glob.glob("/verif/seeded/%s-*" % pid)):
    try:
        earlier.append(json.load(open(d + "/meta.agent.json"))["summary"][:330].replace("\n", " "))
    except Exception:
        pass
tmpl = open("/tmp/seed/prompt_C05c.txt").read()
head_end = tmpl.index("Here is a semantic property")
task_start = tmpl.index("YOUR TASK:")
head = tmpl[:head_end].replace("C05c", name)
task = tmpl[task_start:].replace("C05c", name).replace('"property": "C05"', '"property": "%s"' % pid)
body = "Here is a semantic property of the system that is supposed to hold (this text is all you get):\n\nID: %s\nTitle: %s\n\nStatement: %s\n\nQuantified over: %s\n\nRelevant source files: %s\n\n" % (
    pid, prop["title"], prop["statement"], prop["quantifier"]["text"], ", ".join(prop["anchors"]["files"]))
note = "\nNOTE: Earlier independent attempts did the following:\n" + "".join(" (%d) %s ...\n" % (i + 1, e) for i, e in enumerate(earlier))
note += ("Produce a DIFFERENT change: another code site or another clause of the property, not a variation of the above. Also: assume that people will test this property with "
         "hundreds of thousands of randomly generated programs / inputs / operation sequences, with exhaustive sweeps over single operands and bytes, and with differential comparison against "
         "an independently written reference model. Make the breakage RARE: it should need a conjunction of at least two or three specific conditions (a particular value AND a particular form or position AND a "
         "particular history or state), so that only roughly one in 10^4 - 10^6 random cases would hit it, while still being a plausible developer mistake (not an obviously artificial 'if x == 0x42' check; "
         "prefer off-by-one boundaries, wrong masks, forgotten cases in a refactoring, state that is cached and not invalidated, order-of-update mistakes, hidden state, a clause of the statement that is easy to overlook).\n\n")
os.makedirs("/tmp/seed", exist_ok=True)
open("/tmp/seed/prompt_%s.txt" % name, "w").write(head + body + note + task)
if not os.path.exists(wt):
    subprocess.check_call(["git", "-C", "/repo", "worktree", "add", "-q", "--detach", wt, "HEAD"])
    subprocess.check_call(["cp", "-r", "/repo/target", wt + "/target"])
print("/tmp/seed/prompt_%s.txt" % name)
