#![no_main]
use libfuzzer_sys::fuzz_target;

fuzz_target!(|data: &[u8]| {
    h2a_bin::c17::fuzz_one(data, true);
});
