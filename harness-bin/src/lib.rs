//! Library part of harness-bin: the repository's binary crate compiled in through #[path]
//! (it has no library target), the shared engine and the C17 check; used by `check-bin` and by the
//! fz_tui fuzz target.
#![allow(dead_code)]
#[path = "/repo/emulator-2a/src/args.rs"]
pub mod args;
#[path = "/repo/emulator-2a/src/error.rs"]
pub mod error;
#[path = "/repo/emulator-2a/src/helpers/mod.rs"]
pub mod helpers;
#[path = "/repo/emulator-2a/src/runner/mod.rs"]
pub mod runner;
#[path = "/repo/emulator-2a/src/tui/mod.rs"]
pub mod tui;

#[path = "../../harness/src/engine.rs"]
pub mod engine;
pub mod c17;

