//! `check-bin C17 [--tier quick|thorough] [--seed N] [--replay FILE] [--strict]`
//! The repository's binary crate is compiled in through #[path] (it has no library target).
#![allow(dead_code)]
#[path = "/repo/emulator-2a/src/args.rs"]
mod args;
#[path = "/repo/emulator-2a/src/error.rs"]
mod error;
#[path = "/repo/emulator-2a/src/helpers/mod.rs"]
mod helpers;
#[path = "/repo/emulator-2a/src/runner/mod.rs"]
mod runner;
#[path = "/repo/emulator-2a/src/tui/mod.rs"]
mod tui;

#[path = "../../harness/src/engine.rs"]
mod engine;
mod c17;

use engine::{Ctx, Tier};
use std::time::Instant;

fn main() {
    let args: Vec<String> = std::env::args().collect();
    if args.len() < 2 {
        eprintln!("usage: check-bin C17 [--tier quick|thorough] [--seed N] [--replay FILE] [--strict]");
        std::process::exit(2);
    }
    let id = args[1].clone();
    let mut tier = match std::env::var("VERIF_TIER").ok().as_deref() {
        Some("thorough") => Tier::Thorough,
        _ => Tier::Quick,
    };
    let mut seed: u64 = std::env::var("VERIF_SEED").ok().and_then(|s| s.parse().ok()).unwrap_or(1);
    let mut replay = None;
    let mut strict = false;
    let mut i = 2;
    while i < args.len() {
        match args[i].as_str() {
            "--tier" => {
                i += 1;
                tier = if args[i] == "thorough" { Tier::Thorough } else { Tier::Quick };
            }
            "--seed" => {
                i += 1;
                seed = args[i].parse().expect("seed");
            }
            "--replay" => {
                i += 1;
                replay = Some(std::path::PathBuf::from(&args[i]));
            }
            "--strict" => strict = true,
            other => {
                eprintln!("unknown argument {}", other);
                std::process::exit(2);
            }
        }
        i += 1;
    }
    let threads = std::thread::available_parallelism().map(|n| n.get()).unwrap_or(8).min(16);
    let ctx = Ctx { id: id.clone(), tier, seed, start: Instant::now(), replay, strict, threads };
    engine::install_panic_hook();
    {
        let limit = std::env::var("VERIF_WATCHDOG_S").ok().and_then(|s| s.parse().ok()).unwrap_or(match tier {
            Tier::Quick => 1500u64,
            Tier::Thorough => 6 * 3600,
        });
        let id2 = id.clone();
        std::thread::spawn(move || {
            std::thread::sleep(std::time::Duration::from_secs(limit));
            println!("INCONCLUSIVE property={} watchdog after {} s (resource limit, not a violation)", id2, limit);
            std::process::exit(2);
        });
    }
    let ev = match id.as_str() {
        "C17" => match engine::catch(|| c17::run(&ctx)) {
            Ok(ev) => ev,
            Err(p) => {
                if p.contains("emulator-2a") || p.contains("rustyline") {
                    let mut ev = engine::Evidence::new("exploration", "run aborted by a panic in the code under test");
                    ev.evaluations = 1;
                    ev.violation("panic", &engine::panic_signature(&p), format!("uncaught panic in the code under test: {}", p), serde_json::json!({"panic": p}));
                    ev
                } else {
                    println!("HARNESS-ERROR property={} {}", id, p);
                    std::process::exit(2);
                }
            }
        },
        _ => {
            eprintln!("unknown property {}", id);
            std::process::exit(2);
        }
    };
    let code = engine::finish(&ctx, ev);
    std::process::exit(code);
}
