//! `check-bin C17 [--tier quick|thorough] [--seed N] [--replay FILE] [--strict]`
//! The repository's binary crate is compiled in through #[path] (it has no library target).
#![allow(dead_code)]
use h2a_bin::{c17, engine};
use engine::{Ctx, Tier};
use std::time::Instant;

fn main() {
    let args: Vec<String> = std::env::args().collect();
    if args.len() < 2 {
        eprintln!("usage: check-bin C17 [--tier quick|thorough] [--seed N] [--replay FILE] [--strict]");
        std::process::exit(2);
    }
    if args[1] == "fuzz-replay" {
        engine::install_panic_hook();
        let data = std::fs::read(&args[3]).expect("artifact");
        if let Some((s, d)) = c17::fuzz_one(&data, false) {
            println!("FINDING C17 {} {}", s, d.replace('\n', " ").chars().take(500).collect::<String>());
        }
        std::process::exit(0);
    }
    let id = args[1].clone();
    let mut tier = match std::env::var("VERIF_TIER").ok().as_deref() {
        Some("thorough") => Tier::Thorough,
        _ => Tier::Quick,
    };
    let mut seed: u64 = std::env::var("VERIF_SEED").ok().and_then(|s| s.parse().ok()).unwrap_or(1);
    let mut replay = None;
    let mut strict = false;
    let mut i = 2;
    while i < args.len() {
        match args[i].as_str() {
            "--tier" => {
                i += 1;
                tier = if args[i] == "thorough" { Tier::Thorough } else { Tier::Quick };
            }
            "--seed" => {
                i += 1;
                seed = args[i].parse().expect("seed");
            }
            "--replay" => {
                i += 1;
                replay = Some(std::path::PathBuf::from(&args[i]));
            }
            "--strict" => strict = true,
            other => {
                eprintln!("unknown argument {}", other);
                std::process::exit(2);
            }
        }
        i += 1;
    }
    let threads = std::thread::available_parallelism().map(|n| n.get()).unwrap_or(8).min(16);
    let ctx = Ctx { id: id.clone(), tier, seed, start: Instant::now(), replay, strict, threads };
    engine::install_panic_hook();
    {
        let limit = std::env::var("VERIF_WATCHDOG_S").ok().and_then(|s| s.parse().ok()).unwrap_or(match tier {
            Tier::Quick => 1500u64,
            Tier::Thorough => 6 * 3600,
        });
        let id2 = id.clone();
        std::thread::spawn(move || {
            std::thread::sleep(std::time::Duration::from_secs(limit));
            println!("INCONCLUSIVE property={} watchdog after {} s (resource limit, not a violation)", id2, limit);
            std::process::exit(2);
        });
    }
    let ev = match id.as_str() {
        "C17" if ctx.replay.as_ref().map(|p| fuzz_artifact_bytes(p).is_some()).unwrap_or(false) => {
            let bytes = fuzz_artifact_bytes(ctx.replay.as_ref().unwrap()).unwrap();
            let mut ev = engine::Evidence::new("exploration", "replay of a fuzz artifact through the deterministic oracle");
            ev.evaluations = 1;
            if let Some((s, d)) = c17::fuzz_one(&bytes, false) {
                ev.violation("fuzz", &s, d, serde_json::json!({"artifact": ctx.replay.as_ref().unwrap().display().to_string()}));
            }
            ev
        }
        "C17" => match engine::catch(|| c17::run(&ctx)) {
            Ok(ev) => ev,
            Err(p) => {
                if p.contains("emulator-2a") || p.contains("rustyline") {
                    let mut ev = engine::Evidence::new("exploration", "run aborted by a panic in the code under test");
                    ev.evaluations = 1;
                    ev.violation("panic", &engine::panic_signature(&p), format!("uncaught panic in the code under test: {}", p), serde_json::json!({"panic": p}));
                    ev
                } else {
                    println!("HARNESS-ERROR property={} {}", id, p);
                    std::process::exit(2);
                }
            }
        },
        _ => {
            eprintln!("unknown property {}", id);
            std::process::exit(2);
        }
    };
    let mut ev = ev;
    if ctx.tier == Tier::Thorough && ctx.replay.is_none() {
        if let Some(doc) = std::fs::read_to_string("/verif/target/fuzz-stats-fz_tui.json").ok().and_then(|t| serde_json::from_str::<serde_json::Value>(&t).ok()) {
            ev.evaluations += doc["executions"].as_u64().unwrap_or(0);
            ev.class("fuzz:fz_tui:executions", doc["executions"].as_u64().unwrap_or(0));
            if let Some(fs) = doc["findings"].as_array() {
                for f in fs {
                    ev.violation("fuzz", f["signature"].as_str().unwrap_or("fuzz"), f["detail"].as_str().unwrap_or("").to_string(), serde_json::json!({"artifact": f["artifact"]}));
                }
            }
            ev.parts.push(doc);
        }
    }
    let code = engine::finish(&ctx, ev);
    std::process::exit(code);
}

fn fuzz_artifact_bytes(path: &std::path::Path) -> Option<Vec<u8>> {
    let raw = std::fs::read(path).ok()?;
    match serde_json::from_slice::<serde_json::Value>(&raw) {
        Ok(doc) if doc["kind"] == "fuzz" => std::fs::read(doc["case"]["artifact"].as_str()?).ok(),
        Ok(_) => None,
        Err(_) => Some(raw),
    }
}
