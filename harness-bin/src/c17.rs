//! C17 — the interactive session survives any key input; commands have the documented effect.
//!
//! Key scripts are driven through the `verif-hooks` main-loop step (injected keys, TestBackend of
//! a generated size, fixed auto-run slice).  Oracle: no panic, cursor inside the text, and a shadow
//! `Machine` driven by a reference command grammar written from the README.
use crate::engine::*;
use crate::args::InteractiveArgs;
use crate::tui::Tui;
use crossterm::event::{KeyCode, KeyEvent, KeyModifiers};
use emulator_2a_lib::compiler::Translator;
use emulator_2a_lib::machine::{Machine, MachineConfig, StepMode};
use emulator_2a_lib::parser::AsmParser;
use proptest::prelude::*;
use serde::{Deserialize, Serialize};
use serde_json::json;

pub const SCRATCH: &str = "/verif/target/tmp-c17/scratch";
const AUTORUN_CYCLES: usize = 37;
const GENERATED_PROGRAMS: usize = 48;

// ---------------------------------------------------------------------------------------------
// reference command grammar (DESIGN.md §4 C17)

#[derive(Debug, Clone, PartialEq)]
pub enum Cmd {
    Load(String),
    Input(u8, u8),
    Irg(u8),
    Temp(f32),
    I1(f32),
    I2(f32),
    J(u8, bool),
    Uio(u8, bool),
    Show(bool),
    Next(u64),
    Quit,
}

#[derive(Debug, Clone, PartialEq)]
pub enum Class {
    Valid(Cmd),
    Invalid,
    /// `exit`, upper-case radix prefix, exotic floats, huge counts, load/next/quit followed by other text
    Unconstrained,
    /// a complete set/unset/show/register command followed by other text: not a documented command, so it
    /// is either rejected with a notification (machine untouched) or executed as exactly that command
    Either(Cmd),
}

fn is_ws(c: char) -> bool {
    c == ' ' || c == '\t'
}
fn skip_ws(s: &str) -> &str {
    s.trim_start_matches(is_ws)
}
fn ws1(s: &str) -> Option<&str> {
    let t = skip_ws(s);
    if t.len() < s.len() {
        Some(t)
    } else {
        None
    }
}
fn kw<'a>(s: &'a str, k: &str) -> Option<&'a str> {
    if s.len() >= k.len() && s.is_char_boundary(k.len()) && s[..k.len()].eq_ignore_ascii_case(k) {
        Some(&s[k.len()..])
    } else {
        None
    }
}
fn eq(s: &str) -> Option<&str> {
    let t = skip_ws(s);
    t.strip_prefix('=').map(skip_ws)
}

enum Num<'a> {
    /// value, rest, spelled with an upper-case prefix
    Ok(u8, &'a str, bool),
    TooBig,
    None,
}

/// NUM: maximal lexeme 0x hex+ / 0b bin+ / dec+; valid iff <= 255
fn num(s: &str) -> Num<'_> {
    let b = s.as_bytes();
    let lex = |from: usize, radix: u32| -> usize { s[from..].chars().take_while(|c| c.is_digit(radix)).count() };
    let (digits_from, n, radix, upper) = if b.len() > 2 && b[0] == b'0' && (b[1] == b'x' || b[1] == b'X') && lex(2, 16) > 0 {
        (2, lex(2, 16), 16, b[1] == b'X')
    } else if b.len() > 2 && b[0] == b'0' && (b[1] == b'b' || b[1] == b'B') && lex(2, 2) > 0 {
        (2, lex(2, 2), 2, b[1] == b'B')
    } else if lex(0, 10) > 0 {
        (0, lex(0, 10), 10, false)
    } else {
        return Num::None;
    };
    let text = &s[digits_from..digits_from + n];
    let rest = &s[digits_from + n..];
    let t = text.trim_start_matches('0');
    let v = if t.is_empty() { Some(0u64) } else if t.len() > 18 { None } else { u64::from_str_radix(t, radix).ok() };
    match v {
        Some(v) if v <= 255 => Num::Ok(v as u8, rest, upper),
        _ => Num::TooBig,
    }
}

fn finish(cmd: Cmd, rest: &str, force_unconstrained: bool) -> Class {
    if skip_ws(rest).is_empty() && !force_unconstrained {
        Class::Valid(cmd)
    } else if !force_unconstrained && !matches!(cmd, Cmd::Load(_) | Cmd::Next(_) | Cmd::Quit) {
        Class::Either(cmd)
    } else {
        Class::Unconstrained
    }
}

/// the commands without a precondition: applied to the shadow machine
fn apply_simple(shadow: &mut Machine, shows_memory: &mut bool, cmd: &Cmd) {
    match cmd {
        Cmd::Input(i, v) => match i {
            0 => shadow.set_input_fc(*v),
            1 => shadow.set_input_fd(*v),
            2 => shadow.set_input_fe(*v),
            _ => shadow.set_input_ff(*v),
        },
        Cmd::Irg(v) => shadow.set_digital_input1(*v),
        Cmd::Temp(v) => shadow.set_temp(*v),
        Cmd::I1(v) => shadow.set_analog_input1(*v),
        Cmd::I2(v) => shadow.set_analog_input2(*v),
        Cmd::J(0, v) => shadow.set_jumper1(*v),
        Cmd::J(_, v) => shadow.set_jumper2(*v),
        Cmd::Uio(0, v) => shadow.set_universal_input_output1(*v),
        Cmd::Uio(1, v) => shadow.set_universal_input_output2(*v),
        Cmd::Uio(_, v) => shadow.set_universal_input_output3(*v),
        Cmd::Show(mem) => *shows_memory = *mem,
        Cmd::Load(_) | Cmd::Next(_) | Cmd::Quit => {}
    }
}

fn num_cmd(rest: &str, make: impl Fn(u8) -> Cmd) -> Class {
    match num(rest) {
        Num::Ok(v, r, upper) => finish(make(v), r, upper),
        Num::TooBig => Class::Invalid,
        Num::None => Class::Invalid,
    }
}

fn float_cmd(rest: &str, make: impl Fn(f32) -> Cmd) -> Class {
    // strict FLOAT: [-]d+[.d+]
    let b: Vec<char> = rest.chars().collect();
    if b.is_empty() || !(b[0].is_ascii_digit() || b[0] == '-' || b[0] == '+' || b[0] == '.') {
        // nothing a float could start with (incl. "inf"/"nan" spellings, left open)
        return if rest.is_empty() || !(b[0].is_ascii_alphabetic()) { Class::Invalid } else { Class::Unconstrained };
    }
    let mut i = 0;
    if b[i] == '-' {
        i += 1;
    }
    let d0 = i;
    while i < b.len() && b[i].is_ascii_digit() {
        i += 1;
    }
    if i == d0 {
        return Class::Unconstrained;
    }
    if i < b.len() && b[i] == '.' {
        let save = i;
        i += 1;
        let d1 = i;
        while i < b.len() && b[i].is_ascii_digit() {
            i += 1;
        }
        if i == d1 {
            i = save;
            let _ = i;
            return Class::Unconstrained;
        }
    }
    let text: String = b[..i].iter().collect();
    let tail: String = b[i..].iter().collect();
    if !skip_ws(&tail).is_empty() {
        return Class::Unconstrained;
    }
    match text.parse::<f32>() {
        Ok(v) => Class::Valid(make(v)),
        Err(_) => Class::Unconstrained,
    }
}

pub fn classify(line: &str) -> Class {
    let s = skip_ws(line);
    // load ws+ PATH
    if let Some(r) = kw(s, "load") {
        if let Some(p) = ws1(r) {
            return Class::Valid(Cmd::Load(p.to_string()));
        }
    }
    // [set ws+] (FC|FD|FE|FF) = NUM
    for with_set in [true, false] {
        let r = if with_set {
            match kw(s, "set").and_then(ws1) {
                Some(r) => r,
                None => continue,
            }
        } else {
            s
        };
        for (i, name) in ["fc", "fd", "fe", "ff"].iter().enumerate() {
            if let Some(r2) = kw(r, name) {
                if let Some(r3) = eq(r2) {
                    return num_cmd(r3, |v| Cmd::Input(i as u8, v));
                }
            }
        }
    }
    if let Some(r) = kw(s, "set").and_then(ws1) {
        if let Some(r2) = kw(r, "irg") {
            if let Some(r3) = eq(r2) {
                return num_cmd(r3, Cmd::Irg);
            }
        }
        if let Some(r2) = kw(r, "temp") {
            if let Some(r3) = eq(r2) {
                return float_cmd(r3, Cmd::Temp);
            }
        }
        if let Some(r2) = kw(r, "i1") {
            if let Some(r3) = eq(r2) {
                return float_cmd(r3, Cmd::I1);
            }
        }
        if let Some(r2) = kw(r, "i2") {
            if let Some(r3) = eq(r2) {
                return float_cmd(r3, Cmd::I2);
            }
        }
    }
    for (word, val) in [("set", true), ("unset", false)] {
        if let Some(r) = kw(s, word).and_then(ws1) {
            for (i, name) in ["j1", "j2"].iter().enumerate() {
                if let Some(r2) = kw(r, name) {
                    return finish(Cmd::J(i as u8, val), r2, false);
                }
            }
            for (i, name) in ["uio1", "uio2", "uio3"].iter().enumerate() {
                if let Some(r2) = kw(r, name) {
                    return finish(Cmd::Uio(i as u8, val), r2, false);
                }
            }
        }
    }
    if let Some(r) = kw(s, "show").and_then(ws1) {
        if let Some(r2) = kw(r, "register") {
            return finish(Cmd::Show(false), r2, false);
        }
        if let Some(r2) = kw(r, "memory") {
            return finish(Cmd::Show(true), r2, false);
        }
    }
    if let Some(r) = kw(s, "next") {
        if let Some(r2) = ws1(r) {
            let n: String = r2.chars().take_while(|c| c.is_ascii_digit()).collect();
            if !n.is_empty() {
                let rest = &r2[n.len()..];
                return match n.parse::<u64>() {
                    Ok(v) if v <= u32::MAX as u64 => finish(Cmd::Next(v), rest, false),
                    _ => Class::Unconstrained,
                };
            }
        }
        return finish(Cmd::Next(1), r, false);
    }
    if let Some(r) = kw(s, "quit") {
        return finish(Cmd::Quit, r, false);
    }
    if kw(s, "exit").is_some() {
        return Class::Unconstrained;
    }
    Class::Invalid
}

// ---------------------------------------------------------------------------------------------
// scripts

#[derive(Clone, Debug, Serialize, Deserialize, PartialEq)]
pub enum Ev {
    Char(char),
    /// character with the ALT modifier (still inserted)
    AltChar(char),
    Enter,
    Tab,
    BackTab,
    Left,
    Right,
    Up,
    Down,
    Home,
    End,
    Backspace,
    Delete,
    Ctrl(char),
    /// keys the session does not handle: 0 Esc, 1..=12 F-keys, 13 PageUp, 14 Insert, 15 Null
    Other(u8),
    /// macro: type the line character by character, then Enter
    Type(String),
}

#[derive(Clone, Debug, Serialize, Deserialize)]
pub struct Script {
    pub events: Vec<(Ev, u16, u16)>,
}

const CMD_ALPHA: &str = "loadsetunhowrgimyqxpcbtj0123456789= .\tFCDEJUIOTMPRGXB-";
const UNI_ALPHA: [char; 10] = ['é', '漢', '😀', '\u{301}', '\u{200b}', 'ß', 'Ω', '\u{a0}', 'ｗ', '\u{1F1E9}'];

fn size_strategy() -> impl Strategy<Value = (u16, u16)> {
    prop_oneof![
        4 => (75u16..=77, 27u16..=29),
        3 => (76u16..=250, 28u16..=100),
        2 => (1u16..=250, 1u16..=100),
        2 => Just((80u16, 30u16)),
        1 => (1u16..=6, 1u16..=6),
        1 => prop::sample::select(vec![(76u16, 28u16), (250, 100), (76, 100), (250, 28), (111, 28), (112, 29)]),
    ]
}

fn spacing() -> impl Strategy<Value = String> {
    prop_oneof![3 => Just(" ".to_string()), 1 => Just("".to_string()), 1 => Just("  ".to_string()), 1 => Just("\t".to_string()), 1 => Just(" \t ".to_string())]
}

fn recase(s: &str, mask: u32) -> String {
    s.chars()
        .enumerate()
        .map(|(i, c)| {
            if mask >> (i % 32) & 1 == 1 {
                if c.is_ascii_lowercase() {
                    c.to_ascii_uppercase()
                } else {
                    c.to_ascii_lowercase()
                }
            } else {
                c
            }
        })
        .collect()
}

fn number_text() -> impl Strategy<Value = String> {
    prop_oneof![
        4 => (any::<u8>(), 0u8..3, 0usize..3).prop_map(|(v, r, z)| match r {
            0 => format!("{}{}", "0".repeat(z), v),
            1 => format!("0x{}{:x}", "0".repeat(z), v),
            _ => format!("0b{}{:b}", "0".repeat(z), v),
        }),
        // values above 255 in every radix
        2 => (256u32..70000, 0u8..3).prop_map(|(v, r)| match r {
            0 => v.to_string(),
            1 => format!("0x{:X}", v),
            _ => format!("0b{:b}", v),
        }),
        1 => prop::sample::select(vec!["256", "0x100", "0b100000000", "0x1FF", "0b111111111", "300", "0xfff", "99999999999999999999", "0X1F", "0B11", "0x", "0b", "", "0xG1", "-1", "1.5"]).prop_map(|s| s.to_string()),
    ]
}

fn float_text() -> impl Strategy<Value = String> {
    prop_oneof![
        4 => (0u32..800, any::<bool>()).prop_map(|(v, neg)| format!("{}{}.{:02}", if neg { "-" } else { "" }, v / 100, v % 100)),
        2 => (0u32..9).prop_map(|v| v.to_string()),
        1 => prop::sample::select(vec!["1e3", ".5", "5.", "+1", "inf", "nan", "abc", "", "1.2.3", "0x10", "2,5"]).prop_map(|s| s.to_string()),
    ]
}

fn command_line() -> impl Strategy<Value = String> {
    let files = vec!["good.asm", "good2.asm", "bad.asm", "missing.asm", "dir", "nonutf8.asm", "é.asm", "", "good.asm ", "./good.asm", "dir/inner.asm", "GOOD.ASM", "Good.asm", "DIR/inner.asm", "counter.asm"];
    let base = prop_oneof![
        6 => (prop::sample::select(vec!["FC", "FD", "FE", "FF"]), any::<bool>(), spacing(), spacing(), number_text()).prop_map(|(r, set, a, b, n)| format!("{}{}{}={}{}", if set { "set " } else { "" }, r, a, b, n)),
        2 => (spacing(), spacing(), number_text()).prop_map(|(a, b, n)| format!("set IRG{}={}{}", a, b, n)),
        3 => (prop::sample::select(vec!["TEMP", "I1", "I2"]), spacing(), spacing(), float_text()).prop_map(|(v, a, b, n)| format!("set {}{}={}{}", v, a, b, n)),
        3 => (any::<bool>(), prop::sample::select(vec!["J1", "J2", "UIO1", "UIO2", "UIO3"])).prop_map(|(s, v)| format!("{} {}", if s { "set" } else { "unset" }, v)),
        2 => prop::sample::select(vec!["show memory", "show register", "show  memory", "show foo", "show"]).prop_map(|s| s.to_string()),
        3 => prop_oneof![Just("next".to_string()), (0u32..300).prop_map(|n| format!("next {}", n)), Just("next 5x".to_string()), Just("next  12".to_string())],
        4 => prop::sample::select(files).prop_map(|f| format!("load {}", f)),
        3 => (0usize..GENERATED_PROGRAMS).prop_map(|k| format!("load g{:02}.asm", k)),
        2 => prop::sample::select(long_names()).prop_map(|f| format!("load {}", f)),
        1 => prop::sample::select(vec!["foo", "sett FC = 1", "FB = 1", "unset FC = 1", "set", "=", "FC", "FC =", "set J3", "loadx", "lo ad good.asm", "set TEMP", "é", "set I3 = 1"]).prop_map(|s| s.to_string()),
    ];
    (base, any::<u32>(), prop_oneof![3 => Just(0u8), 1 => Just(1u8), 1 => Just(2u8)], spacing(), prop_oneof![4 => Just("".to_string()), 1 => Just(" xyz".to_string()), 1 => Just("x".to_string()), 1 => Just(" = true".to_string())]).prop_map(|(b, mask, casing, lead, tail)| {
        let b = match casing {
            0 => b,
            1 => b.to_lowercase(),
            _ => recase(&b, mask),
        };
        // keep file names intact when recasing would break them: only commands are case-insensitive
        format!("{}{}{}", if lead == " " { "" } else { &lead }, b, tail)
    })
}

fn ev_strategy() -> impl Strategy<Value = Ev> {
    let cmd: Vec<char> = CMD_ALPHA.chars().collect();
    prop_oneof![
        10 => prop::sample::select(cmd.clone()).prop_map(Ev::Char),
        3 => prop::sample::select(UNI_ALPHA.to_vec()).prop_map(Ev::Char),
        1 => any::<char>().prop_filter("no control", |c| !c.is_control()).prop_map(Ev::Char),
        1 => prop::sample::select(cmd).prop_map(Ev::AltChar),
        4 => Just(Ev::Enter),
        4 => Just(Ev::Tab),
        2 => Just(Ev::BackTab),
        3 => Just(Ev::Left),
        2 => Just(Ev::Right),
        2 => Just(Ev::Up),
        2 => Just(Ev::Down),
        1 => Just(Ev::Home),
        1 => Just(Ev::End),
        3 => Just(Ev::Backspace),
        2 => Just(Ev::Delete),
        4 => prop::sample::select(vec!['a', 'w', 'e', 'r', 'l', 'x', 'z']).prop_map(Ev::Ctrl),
        1 => (0u8..16).prop_map(Ev::Other),
        12 => command_line().prop_map(Ev::Type),
        // load, run for a while, load the same path again (a reload starts from a clean machine)
        2 => (prop::sample::select(vec!["counter.asm", "good2.asm", "good.asm", "./counter.asm", "dir/inner.asm"]), prop_oneof![1u32..40, 40u32..400], 0usize..GENERATED_PROGRAMS, 0u8..4)
            .prop_map(|(f, n, g, how)| {
                let f = if how == 3 { format!("g{:02}.asm", g) } else { f.to_string() };
                match how {
                    0 => Ev::Type(format!("load {}\nnext {}\nload {}", f, n, f)),
                    1 => Ev::Type(format!("load {}\nnext {}\nLOAD {}\nnext {}", f, n, f, n / 2 + 1)),
                    _ => Ev::Type(format!("load {}\nnext {}\nload {}\nnext 3", f, n, f)),
                }
            }),
        // `next N` far beyond one frame's worth of clock edges (307 200), on a program that keeps running;
        // only one in sixteen of these is big (each costs N edges twice)
        1 => (0u8..16, prop::sample::select(vec![65_535u32, 65_536, 70_000, 307_199, 307_200, 307_201, 400_000, 1_000_000]), 1u32..3000, any::<bool>())
            .prop_map(|(sel, big, small, asm_mode)| {
                let n = if sel == 0 { big } else { small };
                // (Assembly step mode multiplies the cost by the instruction length: big counts only in Real mode)
                let _ = asm_mode;
                Ev::Type(format!("load counter.asm\nnext {}", n))
            }),
        // the same analog value entered again after the comparators were moved by the program and a load
        // reset the DACs (the library setter re-evaluates the comparator every time)
        1 => (prop::sample::select(vec!["TEMP", "I1", "I2"]), prop::sample::select(vec!["2", "2.5", "1", "5", "0.5"]), 20u32..200, any::<bool>())
            .prop_map(|(var, v, n, reload)| {
                let second = if reload { "load good.asm" } else { "load dac.asm" };
                Ev::Type(format!("set {} = {}\nload dac.asm\nnext {}\n{}\nset {} = {}", var, v, n, second, var, v))
            }),
        // cursor edges: a text of every small length, then runs of editing keys at its ends
        3 => (prop::collection::vec(prop_oneof![6 => prop::sample::select(CMD_ALPHA.chars().collect::<Vec<char>>()), 1 => prop::sample::select(UNI_ALPHA.to_vec())], 0..13),
              prop::collection::vec(prop::sample::select(vec!['\u{2}', '\u{2}', '\u{3}', '\u{4}', '\u{4}', '\u{4}', '\u{5}', '\u{5}', '\u{6}', '\u{7}', '\u{8}', '\u{e}', '\u{f}']), 1..8))
            .prop_map(|(text, keys)| {
                let mut s: String = text.into_iter().collect();
                s.extend(keys);
                s.push('\u{1}');
                Ev::Type(s)
            }),
        // two lines in a row that are equal, or equal up to letter case / blanks (history, repeated
        // commands, `load` of paths that differ only in case): '\n' inside a macro is the Enter key
        3 => (command_line(), any::<u32>(), 0u8..5).prop_map(|(l, mask, how)| {
            let second = match how {
                0 => l.clone(),
                1 => l.to_uppercase(),
                2 => l.to_lowercase(),
                3 => format!("{} ", l),
                _ => recase(&l, mask),
            };
            Ev::Type(format!("{}\n{}", l, second))
        }),
        1 => (prop::sample::select(vec!["load ", "load é", "load d", "load g", "F", "FC", "Fé", "FF ", "l", "s", "se", "load good", "load dir/", "load ./", "F漢"]), 1usize..4).prop_map(|(s, _)| Ev::Type(format!("{}\u{0}", s))),
    ]
}

pub fn script_strategy(max: usize) -> impl Strategy<Value = Script> {
    prop::collection::vec((ev_strategy(), size_strategy()), 1..max).prop_map(|v| Script { events: v.into_iter().map(|(e, (w, h))| (e, w, h)).collect() })
}

fn key(ev: &Ev) -> KeyEvent {
    let k = |code| KeyEvent { code, modifiers: KeyModifiers::empty() };
    match ev {
        Ev::Char(c) => KeyEvent { code: KeyCode::Char(*c), modifiers: if c.is_uppercase() { KeyModifiers::SHIFT } else { KeyModifiers::empty() } },
        Ev::AltChar(c) => KeyEvent { code: KeyCode::Char(*c), modifiers: KeyModifiers::ALT },
        Ev::Enter => k(KeyCode::Enter),
        Ev::Tab => k(KeyCode::Tab),
        Ev::BackTab => KeyEvent { code: KeyCode::BackTab, modifiers: KeyModifiers::SHIFT },
        Ev::Left => k(KeyCode::Left),
        Ev::Right => k(KeyCode::Right),
        Ev::Up => k(KeyCode::Up),
        Ev::Down => k(KeyCode::Down),
        Ev::Home => k(KeyCode::Home),
        Ev::End => k(KeyCode::End),
        Ev::Backspace => k(KeyCode::Backspace),
        Ev::Delete => k(KeyCode::Delete),
        Ev::Ctrl(c) => KeyEvent { code: KeyCode::Char(*c), modifiers: KeyModifiers::CONTROL },
        Ev::Other(n) => k(match n {
            0 => KeyCode::Esc,
            1..=12 => KeyCode::F(*n),
            13 => KeyCode::PageUp,
            14 => KeyCode::Insert,
            _ => KeyCode::Null,
        }),
        Ev::Type(_) => unreachable!(),
    }
}

/// Create the scratch directory with the files `load` can meet.
pub fn prepare_scratch() {
    let d = std::path::Path::new(SCRATCH);
    let _ = std::fs::create_dir_all(d.join("dir"));
    let good = "#! mrasm\n LDSP 0xE0\nLOOP:\n INC R0\n ST (0xFF), R0\n LD R1, (0xFC)\n ADD R1, R0\n ST (0xFE), R1\n JR LOOP\n";
    let good2 = "#! mrasm\n*STACKSIZE 32\n JR MAIN\n JR ISR\nMAIN:\n LDSP 0xEF\n BITS (0xF9), 1\n EI\n LD R0, 7\nL:\n DEC R0\n JZC L\n STOP\n JR MAIN\nISR:\n INC R2\n ST (0xFE), R2\n RETI\n";
    let _ = std::fs::write(d.join("good.asm"), good);
    let _ = std::fs::write(d.join("good2.asm"), good2);
    // a program that writes RAM outside its code (data cell, stack): a reload has to clear all of it again
    let counter = "#! mrasm\n LDSP 0xEF\nLOOP:\n LD R0, (0x80)\n INC R0\n ST (0x80), R0\n ST (0xFF), R0\n PUSH R0\n CALL SUB\n POP R1\n JR LOOP\nSUB:\n ST (0x81), R1\n RET\n";
    let _ = std::fs::write(d.join("counter.asm"), counter);
    // long file names with a multi-byte character at every position around the places where a
    // sidebar might cut them (the name is shown next to "Program:")
    for (k, name) in long_names().iter().enumerate() {
        let _ = std::fs::write(d.join(name), if k % 2 == 0 { good } else { good2 });
    }
    // a program that drives both DACs to full scale (comparator bits drop) and then idles
    let _ = std::fs::write(d.join("dac.asm"), "#! mrasm\n LD R0, 0xFF\n ST (0xF0), R0\n ST (0xF1), R0\nL:\n JR L\n");
    // same name in another letter case, different program: paths are case-sensitive, keywords are not
    let _ = std::fs::write(d.join("GOOD.ASM"), good2);
    let _ = std::fs::write(d.join("é.asm"), good);
    let _ = std::fs::write(d.join("bad.asm"), "#! mrasm\n this is not a program\n");
    let _ = std::fs::write(d.join("nonutf8.asm"), [0x23u8, 0x21, 0x20, 0xFF, 0xFE, 0x0A]);
    let _ = std::fs::write(d.join("dir").join("inner.asm"), good2);
    // generated accepted programs (every instruction shape, Unicode comments, long lines, .ORG/.DB/.DW
    // layouts, images up to 240 bytes): `load gNN.asm` drives Tui::load_program and the program pane
    // (ProgramDisplayState::from_bytecode + rendering) — the TUI part of C06's domain
    {
        use proptest::strategy::{Strategy, ValueTree};
        let mut runner = h2a::engine::runner(0xC17_C06, 64);
        let strat = h2a::textgen::spec_strategy(h2a::textgen::FITS);
        for k in 0..GENERATED_PROGRAMS {
            if let Ok(tree) = strat.new_tree(&mut runner) {
                let spec = tree.current();
                let (asm, _) = h2a::textgen::build(&spec, &h2a::textgen::FITS);
                let text = h2a::textgen::render(&asm, spec.render_seed);
                let _ = std::fs::write(d.join(format!("g{:02}.asm", k)), text);
            }
        }
    }
    let _ = std::env::set_current_dir(d);
}

/// 27..=40 byte names: k ASCII characters, one 2/3/4-byte character, the rest ASCII
pub fn long_names() -> Vec<String> {
    let mut v = vec![];
    for (i, ch) in ['é', '€', '𝄞'].iter().enumerate() {
        for lead in [0usize, 1, 2, 3, 5, 9, 14] {
            for total in [22usize, 26, 31] {
                let tail = total.saturating_sub(lead);
                v.push(format!("{}{}{}{}.asm", "n".repeat(lead), ch, "x".repeat(tail), i));
            }
        }
    }
    v
}

#[derive(Default)]
pub struct Stats {
    pub steps: u64,
    pub valid_cmds: u64,
    pub invalid_cmds: u64,
    pub unconstrained_cmds: u64,
    pub either_cmds: u64,
    pub loads_ok: u64,
    pub multibyte_or_tab: bool,
    pub dismissed: u64,
    pub draws_full: u64,
    pub skipped_enter: u64,
}

type Fail = (String, String);

struct Session {
    tui: Tui,
    shadow: Machine,
    autorun: bool,
    shows_memory: bool,
    notification: bool,
    input: String,
    quit: bool,
}

fn one_key(s: &mut Session, ev: &Ev, w: u16, h: u16, st: &mut Stats) -> Result<(), Fail> {
    st.steps += 1;
    if w >= 76 && h >= 28 {
        st.draws_full += 1;
    }
    // ---- prediction
    let mut expect_quit = false;
    let mut expect_notification: Option<bool> = Some(false);
    let mut resync = false;
    let mut expect_input_unchanged = false;
    let mut either: Option<Cmd> = None;
    if s.notification {
        // any key only dismisses the notification
        expect_input_unchanged = true;
        st.dismissed += 1;
    } else {
        match ev {
            Ev::Ctrl('c') => expect_quit = true,
            Ev::Ctrl('a') => s.autorun = !s.autorun,
            Ev::Ctrl('w') => {
                let m = if s.shadow.step_mode() == StepMode::Real { StepMode::Assembly } else { StepMode::Real };
                s.shadow.set_step_mode(m)
            }
            Ev::Ctrl('e') => s.shadow.trigger_key_interrupt(),
            Ev::Ctrl('r') => s.shadow.cpu_reset(),
            Ev::Ctrl('l') => s.shadow.trigger_key_continue(),
            Ev::Ctrl(_) | Ev::Other(_) => expect_input_unchanged = true,
            Ev::Enter => {
                if s.input.is_empty() {
                    s.shadow.trigger_key_clock();
                } else {
                    match classify(&s.input) {
                        Class::Invalid => {
                            st.invalid_cmds += 1;
                            expect_notification = Some(true);
                        }
                        Class::Unconstrained => {
                            st.unconstrained_cmds += 1;
                            resync = true;
                            expect_notification = None;
                        }
                        Class::Either(cmd) => {
                            st.either_cmds += 1;
                            either = Some(cmd);
                            expect_notification = None;
                        }
                        Class::Valid(cmd) => {
                            st.valid_cmds += 1;
                            match cmd {
                                Cmd::Load(path) => {
                                    let loaded = std::fs::read_to_string(&path).ok().and_then(|t| AsmParser::parse(&t).ok());
                                    match loaded {
                                        Some(asm) => {
                                            let bc = Translator::compile(&asm);
                                            s.shadow.load(bc);
                                            st.loads_ok += 1;
                                        }
                                        None => expect_notification = Some(true),
                                    }
                                }
                                Cmd::Input(i, v) => match i {
                                    0 => s.shadow.set_input_fc(v),
                                    1 => s.shadow.set_input_fd(v),
                                    2 => s.shadow.set_input_fe(v),
                                    _ => s.shadow.set_input_ff(v),
                                },
                                Cmd::Irg(v) => s.shadow.set_digital_input1(v),
                                Cmd::Temp(v) => s.shadow.set_temp(v),
                                Cmd::I1(v) => s.shadow.set_analog_input1(v),
                                Cmd::I2(v) => s.shadow.set_analog_input2(v),
                                Cmd::J(0, v) => s.shadow.set_jumper1(v),
                                Cmd::J(_, v) => s.shadow.set_jumper2(v),
                                Cmd::Uio(0, v) => s.shadow.set_universal_input_output1(v),
                                Cmd::Uio(1, v) => s.shadow.set_universal_input_output2(v),
                                Cmd::Uio(_, v) => s.shadow.set_universal_input_output3(v),
                                Cmd::Show(mem) => s.shows_memory = mem,
                                Cmd::Next(n) => {
                                    for _ in 0..n {
                                        s.shadow.trigger_key_clock();
                                    }
                                }
                                Cmd::Quit => expect_quit = true,
                            }
                        }
                    }
                }
            }
            _ => {}
        }
    }
    // ---- the real session
    let k = key(ev);
    let before_input = s.input.clone();
    let tui = &mut s.tui;
    let rep = match catch(|| tui.verif_step(Some(k), w, h, AUTORUN_CYCLES)) {
        Ok(r) => r,
        Err(p) => {
            return Err((panic_signature(&p), format!("panic on {:?} at terminal size {}x{} with input {:?}: {}", ev, w, h, before_input, p)));
        }
    };
    s.quit = rep.quit;
    if rep.quit != expect_quit && !resync {
        return Err((
            if rep.quit { "tui:unexpected-quit".into() } else { "tui:quit-ignored".into() },
            format!("{:?} with input {:?}: session quit = {}, expected {}", ev, before_input, rep.quit, expect_quit),
        ));
    }
    if rep.quit {
        return Ok(());
    }
    if let Some(cmd) = &either {
        // rejected (notification, machine untouched) or executed as exactly that command
        if rep.notification.is_none() {
            apply_simple(&mut s.shadow, &mut s.shows_memory, cmd);
        }
    }
    if s.autorun {
        for _ in 0..AUTORUN_CYCLES {
            s.shadow.trigger_key_clock();
        }
    }
    let n = rep.input.chars().count();
    if rep.cursor > n {
        return Err(("tui:cursor-outside-text".into(), format!("after {:?}: cursor index {} beyond the {} characters of {:?}", ev, rep.cursor, n, rep.input)));
    }
    if s.tui.verif_auto_run() != s.autorun {
        return Err(("tui:autorun-mode".into(), format!("after {:?}: auto-run mode is {}, expected {}", ev, s.tui.verif_auto_run(), s.autorun)));
    }
    if resync {
        s.shadow = s.tui.verif_machine().clone();
        s.shows_memory = s.tui.verif_shows_memory();
    } else {
        if *s.tui.verif_machine() != s.shadow {
            let real = s.tui.verif_machine();
            let what = if real.step_mode() != s.shadow.step_mode() {
                "step-mode"
            } else if (0xFCu8..=0xFF).any(|a| real.bus().read(a) != s.shadow.bus().read(a)) {
                "input-registers"
            } else if real.bus().board() != s.shadow.bus().board() {
                "board"
            } else if real.registers().content() != s.shadow.registers().content() || real.state() != s.shadow.state() {
                "cpu"
            } else if real.bus().memory()[..] != s.shadow.bus().memory()[..] {
                "ram"
            } else {
                "other"
            };
            let sig = match ev {
                Ev::Enter if !before_input.is_empty() && !s.notification => format!("tui:command-effect:{}", what),
                Ev::Enter => format!("tui:clock-key-effect:{}", what),
                Ev::Ctrl(c) => format!("tui:ctrl-{}-effect:{}", c, what),
                _ => format!("tui:machine-changed-by-editing:{}", what),
            };
            return Err((sig, format!("after {:?} (submitted line {:?}, notification showing before: {}): machine differs from the documented effect in {}", ev, before_input, s.notification, what)));
        }
        if s.tui.verif_shows_memory() != s.shows_memory {
            return Err(("tui:show-part".into(), format!("after {:?} (line {:?}): memory view selected = {}, expected {}", ev, before_input, s.tui.verif_shows_memory(), s.shows_memory)));
        }
        if let Some(exp) = expect_notification {
            if rep.notification.is_some() != exp {
                return Err((
                    if exp { "tui:invalid-line-not-rejected".into() } else { "tui:unexpected-notification".into() },
                    format!("after {:?} (submitted line {:?}): notification {:?}, expected {}", ev, before_input, rep.notification.as_ref().map(|t| t.chars().take(80).collect::<String>()), if exp { "a rejection notice" } else { "none" }),
                ));
            }
        }
    }
    if expect_input_unchanged && rep.input != before_input {
        return Err(("tui:input-changed".into(), format!("{:?} changed the input field from {:?} to {:?}", ev, before_input, rep.input)));
    }
    s.notification = rep.notification.is_some();
    s.input = rep.input;
    Ok(())
}

pub fn run_script(sc: &Script) -> (Verdict, Stats) {
    let mut st = Stats::default();
    let tui = match catch(|| Tui::new(&InteractiveArgs::default())) {
        Ok(Ok(t)) => t,
        Ok(Err(e)) => return (Verdict::Fail("HARNESS:tui-new".into(), e.to_string()), st),
        Err(p) => return (Verdict::Fail(panic_signature(&p), p), st),
    };
    let mut s = Session { tui, shadow: Machine::new(MachineConfig::default()), autorun: false, shows_memory: false, notification: false, input: String::new(), quit: false };
    for (ev, w, h) in &sc.events {
        let keys: Vec<Ev> = match ev {
            Ev::Type(line) => {
                // a trailing NUL means: type the text, then Tab instead of Enter
                // a trailing SOH means: no terminating key at all (pure editing macro)
                let (text, last) = match (line.strip_suffix('\u{0}'), line.strip_suffix('\u{1}')) {
                    (Some(t), _) => (t, Some(Ev::Tab)),
                    (_, Some(t)) => (t, None),
                    _ => (line.as_str(), Some(Ev::Enter)),
                };
                // control characters inside a macro stand for editing keys
                let mut v: Vec<Ev> = text
                    .chars()
                    .map(|c| match c {
                        '\n' => Ev::Enter,
                        '\u{2}' => Ev::Home,
                        '\u{3}' => Ev::End,
                        '\u{4}' => Ev::Left,
                        '\u{5}' => Ev::Right,
                        '\u{6}' => Ev::Backspace,
                        '\u{7}' => Ev::Delete,
                        '\u{8}' => Ev::Up,
                        '\u{e}' => Ev::Down,
                        '\u{f}' => Ev::Tab,
                        c => Ev::Char(c),
                    })
                    .collect();
                v.extend(last);
                v
            }
            other => vec![other.clone()],
        };
        let is_macro = matches!(ev, Ev::Type(_));
        if is_macro && s.notification {
            // a notification swallows the next key: dismiss it first so that the typed line arrives whole
            if let Err((sig, d)) = one_key(&mut s, &Ev::Other(0), 40, 5, &mut st) {
                return (Verdict::Fail(sig, d), st);
            }
        }
        let n_keys = keys.len();
        let mut typed = 0usize;
        for k in keys {
            match &k {
                Ev::Char(c) if c.len_utf8() > 1 => st.multibyte_or_tab = true,
                Ev::Tab | Ev::BackTab => st.multibyte_or_tab = true,
                _ => {}
            }
            // guards: never submit a huge `next` count or a crash-shaped program (known finding of C06)
            if k == Ev::Enter && !s.notification && !s.input.is_empty() {
                match classify(&s.input) {
                    Class::Valid(Cmd::Next(n)) if n > 1_200_000 || (n > 50_000 && s.shadow.step_mode() == StepMode::Assembly) => {
                        st.skipped_enter += 1;
                        continue;
                    }
                    Class::Valid(Cmd::Load(p)) => {
                        if let Some(asm) = std::fs::read_to_string(&p).ok().and_then(|t| AsmParser::parse(&t).ok()) {
                            if catch(|| Translator::compile(&asm)).is_err() || asm.lines.len() > 400 {
                                st.skipped_enter += 1;
                                continue;
                            }
                        }
                    }
                    Class::Unconstrained => {
                        // `next 99999999x`-style lines: keep the run bounded
                        if s.input.to_lowercase().contains("next") && s.input.chars().filter(|c| c.is_ascii_digit()).count() > 4 {
                            st.skipped_enter += 1;
                            continue;
                        }
                    }
                    _ => {}
                }
            }
            // characters of a typed-line macro are drawn at the generated size only now and then (and
            // always for the last character and the submitting key); in between a tiny terminal keeps
            // the cost of a script bounded
            typed += 1;
            let (dw, dh) = if is_macro && typed % 6 != 0 && typed + 2 <= n_keys { (40u16, 5u16) } else { (*w, *h) };
            if let Err((sig, d)) = one_key(&mut s, &k, dw, dh, &mut st) {
                return (Verdict::Fail(sig, d), st);
            }
            if s.quit {
                return (Verdict::Pass, st);
            }
            if is_macro && k == Ev::Enter && s.notification && typed < n_keys {
                // inner Enter of a two-line macro: dismiss the notification so that the second line arrives whole
                if let Err((sig, d)) = one_key(&mut s, &Ev::Other(0), 40, 5, &mut st) {
                    return (Verdict::Fail(sig, d), st);
                }
            }
        }
    }
    (Verdict::Pass, st)
}

pub fn run(ctx: &Ctx) -> Evidence {
    let mut ev = Evidence::new(
        "exploration",
        "proptest-generated key scripts (<= 60 events, typed-line macros expand to one key per character): characters from a command alphabet and a Unicode alphabet (2/3/4-byte, combining, zero-width, double-width), Enter, Tab/BackTab, arrows, Home/End, Backspace/Delete, Ctrl keys, unhandled keys, and typed-line macros produced from the command grammar (valid, re-cased/re-spaced, every radix, values above 255, trailing text, unknown words, load of valid/invalid/missing/non-UTF-8/directory paths); the frame is redrawn at a generated terminal size after every key (1x1..250x100, emphasis on the 76x28 guard); oracle = no panic, cursor within the text, shadow Machine driven by a reference command grammar, whole-machine equality after every key; non-trivial = script that submitted >= 1 valid command and contained >= 1 multi-byte character or a Tab; distinct by hash of the script",
    );
    ev.assumptions.push("driven through the verif-hooks main-loop step: injected keys instead of crossterm polling, TestBackend instead of a terminal, 37 clock edges per frame instead of the 1/24 s auto-run slice".into());
    ev.assumptions.push("lines that are a complete command followed by other text, `exit`, upper-case 0X/0B prefixes, exotic float spellings and huge `next` counts are unconstrained (machine re-synchronised)".into());
    prepare_scratch();
    if let Some(path) = &ctx.replay {
        let doc: serde_json::Value = serde_json::from_str(&std::fs::read_to_string(path).expect("replay")).expect("json");
        let c: Script = serde_json::from_value(doc["case"].clone()).expect("case");
        ev.evaluations = 1;
        if let (Verdict::Fail(s, d), _) = run_script(&c) {
            ev.violation("script", &s, d, doc["case"].clone());
        }
        return ev;
    }
    let known: Vec<String> = load_known("C17").into_iter().map(|k| k.signature).collect();
    // self-check of the reference grammar on the README's examples
    for (line, exp) in [
        ("FC = 12", Class::Valid(Cmd::Input(0, 12))),
        ("set fd=0x1f", Class::Valid(Cmd::Input(1, 0x1f))),
        ("  FF = 0b101  ", Class::Valid(Cmd::Input(3, 5))),
        ("FC = 256", Class::Invalid),
        ("FC = 0x1FF", Class::Invalid),
        ("FC = 0b111111111", Class::Invalid),
        ("set IRG = 0xAB", Class::Valid(Cmd::Irg(0xAB))),
        ("IRG = 1", Class::Invalid),
        ("set TEMP = 2.5", Class::Valid(Cmd::Temp(2.5))),
        ("unset UIO2", Class::Valid(Cmd::Uio(1, false))),
        ("set J1 = true", Class::Either(Cmd::J(0, true))),
        ("FC = 12 xyz", Class::Either(Cmd::Input(0, 12))),
        ("load a.asm", Class::Valid(Cmd::Load("a.asm".into()))),
        ("show memory", Class::Valid(Cmd::Show(true))),
        ("next", Class::Valid(Cmd::Next(1))),
        ("next 17", Class::Valid(Cmd::Next(17))),
        ("quit", Class::Valid(Cmd::Quit)),
        ("load a b.asm", Class::Valid(Cmd::Load("a b.asm".into()))),
        ("foo", Class::Invalid),
        ("FB = 1", Class::Invalid),
    ] {
        if classify(line) != exp {
            println!("HARNESS-ERROR reference grammar classifies {:?} as {:?}, expected {:?}", line, classify(line), exp);
            std::process::exit(2);
        }
    }
    let n: u64 = ctx.tier.pick(8_000, 300_000);
    let collected = std::sync::Mutex::new(Evidence::new("", ""));
    let res = par_search(ctx.threads, 32, ctx.seed, n, || script_strategy(60), &known, |c, first, _| {
        let (v, st) = run_script(c);
        if first {
            let mut e = collected.lock().unwrap();
            e.evaluations += 1;
            *e.classes.entry("key-events".into()).or_insert(0) += st.steps;
            *e.classes.entry("frames-drawn-at-full-size".into()).or_insert(0) += st.draws_full;
            *e.classes.entry("commands:valid".into()).or_insert(0) += st.valid_cmds;
            *e.classes.entry("commands:invalid(rejected)".into()).or_insert(0) += st.invalid_cmds;
            *e.classes.entry("commands:unconstrained".into()).or_insert(0) += st.unconstrained_cmds;
            *e.classes.entry("commands:command-plus-trailing-text(rejected-or-exact)".into()).or_insert(0) += st.either_cmds;
            *e.classes.entry("commands:load-succeeded".into()).or_insert(0) += st.loads_ok;
            *e.classes.entry("notifications-dismissed".into()).or_insert(0) += st.dismissed;
            *e.classes.entry("enter-skipped(huge next / known crash shape)".into()).or_insert(0) += st.skipped_enter;
            if st.valid_cmds >= 1 && st.multibyte_or_tab {
                e.nontrivial(&serde_json::to_string(c).unwrap());
            }
            if e.samples.len() < 3 && c.events.len() < 8 && st.valid_cmds >= 1 {
                let s = json!({"events": format!("{:?}", c.events)});
                e.samples.push(s);
            }
        }
        v
    });
    let mut harness = 0;
    for r in res {
        if let Some((c, s, d)) = r.failure {
            if s.starts_with("HARNESS:") {
                harness += 1;
                println!("HARNESS-ERROR {}", d);
                continue;
            }
            ev.violation("script", &s, d, serde_json::to_value(&c).unwrap());
        }
        for (c, s, d) in r.tolerated {
            ev.violation("script", &s, d, serde_json::to_value(&c).unwrap());
        }
    }
    ev.merge(collected.into_inner().unwrap());
    if harness > 0 {
        let code = crate::engine::finish(ctx, ev);
        std::process::exit(if code == 1 { 1 } else { 2 });
    }
    ev
}

// ---------------------------------------------------------------------------------------------
// fuzz entry (thorough tier): bytes drive the script generator through proptest's pass-through RNG

/// Returns the finding (signature, detail), if any.  With `abort` the process aborts on a finding
/// (libFuzzer records the input).
pub fn fuzz_one(data: &[u8], abort: bool) -> Option<(String, String)> {
    static ONCE: std::sync::Once = std::sync::Once::new();
    ONCE.call_once(|| {
        install_panic_hook();
        prepare_scratch();
    });
    // hand-written decoder: one or two bytes per key, terminal size from two bytes per event
    // (proptest's pass-through RNG does not terminate once its data is exhausted)
    let canned = [
        "FC = 12", "set fd=0x1f", "FF = 0b101", "FC = 256", "FE = 0x1FF", "set IRG = 7", "set TEMP = 2.5", "set I1 = 0.5", "set I2 = 4",
        "set J1", "unset J1", "set UIO2", "unset UIO3", "show memory", "show register", "next", "next 9", "load good.asm", "load good2.asm",
        "load bad.asm", "load missing.asm", "load dir", "load nonutf8.asm", "load é.asm", "foo", "  ", "set J1 = true", "quit",
        "load GOOD.ASM", "LOAD good.asm", "load Good.asm", "foo\nFOO", "load good.asm\nload GOOD.ASM", "load GOOD.ASM\nload good.asm", "set j1\nSET J1", "next\nNEXT",
        "load counter.asm", "next 60", "load counter.asm\nnext 90\nload counter.asm",
    ];
    let cmd: Vec<char> = CMD_ALPHA.chars().collect();
    let mut p = 0usize;
    let mut next = |p: &mut usize| -> u8 {
        let v = data.get(*p).copied().unwrap_or(0);
        *p += 1;
        v
    };
    let mut events = vec![];
    while p < data.len() && events.len() < 48 {
        let k = next(&mut p);
        let ev = match k % 24 {
            0..=5 => Ev::Char(cmd[(k as usize / 24 + next(&mut p) as usize) % cmd.len()]),
            6 => Ev::Char(UNI_ALPHA[(k as usize / 24) % UNI_ALPHA.len()]),
            7 => Ev::Enter,
            8 => Ev::Tab,
            9 => Ev::BackTab,
            10 => Ev::Left,
            11 => Ev::Right,
            12 => Ev::Up,
            13 => Ev::Down,
            14 => Ev::Home,
            15 => Ev::End,
            16 => Ev::Backspace,
            17 => Ev::Delete,
            18 => Ev::Ctrl(['a', 'w', 'e', 'r', 'l', 'x'][(k as usize / 24) % 6]),
            19 => Ev::Other(k / 24),
            20 => Ev::AltChar(cmd[(k as usize / 24) % cmd.len()]),
            _ => Ev::Type(canned[(k as usize / 24 + next(&mut p) as usize) % canned.len()].to_string()),
        };
        let s = next(&mut p);
        let (w, h) = match s % 4 {
            0 => (76, 28),
            1 => (75 + (s / 4) as u16 % 3, 27 + (s / 16) as u16 % 3),
            2 => (76 + (s / 4) as u16 * 2, 28 + (s / 4) as u16),
            _ => (1 + (s / 4) as u16, 1 + (s / 8) as u16),
        };
        events.push((ev, w, h));
    }
    let sc = Script { events };
    match run_script(&sc).0 {
        Verdict::Fail(sig, detail) => {
            static KNOWN: std::sync::OnceLock<Vec<String>> = std::sync::OnceLock::new();
            let known = KNOWN.get_or_init(|| load_known("C17").into_iter().map(|k| k.signature).collect());
            if known.contains(&sig) || sig.starts_with("HARNESS:") {
                return None;
            }
            if abort {
                eprintln!("FUZZ-FINDING property=C17 sig={} {}", sig, detail.chars().take(600).collect::<String>());
                std::process::abort();
            }
            Some((sig, detail))
        }
        Verdict::Pass => None,
    }
}
