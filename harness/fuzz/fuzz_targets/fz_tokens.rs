#![no_main]
use libfuzzer_sys::fuzz_target;

fuzz_target!(|data: &[u8]| {
    h2a::fuzzsupport::init_once();
    h2a::fuzzsupport::abort_on(h2a::fuzzsupport::token_findings(data));
});
