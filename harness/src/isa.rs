//! Independent instruction-level reference model of the Minirechner 2a (DESIGN.md Appendix A).
//! Written at instruction level: no sequencer, no pending writes, own arithmetic.
#![allow(dead_code)]
use emulator_2a_lib::machine::Bus;

#[derive(Clone)]
pub struct Ref {
    pub r: [u8; 4], // R0..R3 (R3 = PC)
    pub fr: u8,
    pub sp: u8,
    pub ram: [u8; 0xF0],
    pub inp: [u8; 4], // FC..FF
    pub out: [u8; 2], // FE, FF
    pub io: Bus,      // delegate for F0..FB
    pub ram_accesses: u32,
    pub steps: u32,
    /// every value written to PC / SP during the last `step` (for the supervision oracle, C05)
    pub pc_trace: Vec<u8>,
    pub sp_trace: Vec<u8>,
}

#[derive(Debug, PartialEq, Clone, Copy)]
pub enum Outcome {
    /// instruction completed
    Done,
    /// opcode 0x01 fetched
    Stopped,
    /// opcode 0x00 fetched
    ErrorOp0,
    /// undefined first byte (0x4C-0x4F, 0xE0-0xEF): never completes
    Hang,
    /// second byte outside the defined second-byte set: behaviour not specified
    Undefined,
}

const C: u8 = 1;
const Z: u8 = 2;
const N: u8 = 4;

impl Ref {
    fn set(&mut self, i: usize, v: u8) {
        self.r[i] = v;
        if i == 3 {
            self.pc_trace.push(v);
        }
    }
    fn set_sp(&mut self, v: u8) {
        self.sp = v;
        self.sp_trace.push(v);
    }
    fn inc(&mut self, i: usize) {
        let v = self.r[i].wrapping_add(1);
        self.set(i, v);
    }
    fn rd(&mut self, a: u8) -> u8 {
        if a <= 0xEF {
            self.ram_accesses += 1;
            self.ram[a as usize]
        } else if a >= 0xFC {
            self.inp[(a - 0xFC) as usize]
        } else {
            self.io.read(a)
        }
    }
    fn wr(&mut self, a: u8, v: u8) {
        if a <= 0xEF {
            self.ram_accesses += 1;
            self.ram[a as usize] = v
        } else if a == 0xFE {
            self.out[0] = v
        } else if a == 0xFF {
            self.out[1] = v
        } else {
            self.io.write(a, v) // incl. FC/FD timer
        }
    }
    fn flags(&mut self, c: bool, v: u8) {
        self.fr = (self.fr & !(C | Z | N)) | (c as u8) | (((v == 0) as u8) << 1) | (((v & 0x80 != 0) as u8) << 2);
    }
    fn cf(&self) -> bool {
        self.fr & C != 0
    }
    fn fetch(&mut self) -> u8 {
        let pc = self.r[3];
        let b = self.rd(pc);
        self.set(3, pc.wrapping_add(1));
        b
    }
    fn push(&mut self, v: u8) {
        let sp = self.sp.wrapping_sub(1);
        self.set_sp(sp);
        self.wr(sp, v);
    }
    fn pop(&mut self) -> u8 {
        let sp = self.sp;
        let v = self.rd(sp);
        self.set_sp(sp.wrapping_add(1));
        v
    }
    /// operand fetch through addressing mode; returns (value, effective address if memory)
    fn operand(&mut self, mode: u8, reg: usize) -> (u8, Option<u8>) {
        match mode {
            0 => (self.r[reg], None),
            1 => {
                let a = self.r[reg];
                (self.rd(a), Some(a))
            }
            2 => {
                let a = self.r[reg];
                let v = self.rd(a);
                self.inc(reg);
                (v, Some(a))
            }
            _ => {
                let a = self.r[reg];
                let p = self.rd(a);
                let v = self.rd(p);
                self.inc(reg);
                (v, Some(p))
            }
        }
    }
    pub fn peek(&mut self, a: u8) -> u8 {
        self.rd(a)
    }
    pub fn operand_pub(&mut self, m: u8, r: usize) -> (u8, Option<u8>) {
        self.operand(m, r)
    }
    pub fn interrupt_entry(&mut self) {
        let fr = self.fr;
        self.push(fr);
        let pc = self.r[3];
        self.push(pc);
        self.fr &= 0x07;
        self.set(3, 2);
    }
    pub fn step(&mut self) -> Outcome {
        self.pc_trace.clear();
        self.sp_trace.clear();
        let op = self.fetch();
        let d = (op & 3) as usize;
        let s = ((op >> 2) & 3) as usize;
        match op >> 4 {
            0x0 => match op {
                0x00 => return Outcome::ErrorOp0,
                0x01 => return Outcome::Stopped,
                0x02 | 0x03 => {}
                0x04..=0x07 => self.set(d, 0),
                0x08..=0x0B => self.fr |= 0xF8,
                _ => self.fr &= 0x07,
            },
            0x1 => match s {
                0 => {
                    let v = self.r[d];
                    self.push(v)
                }
                1 => {
                    let v = self.pop();
                    self.set(d, v);
                }
                2 => {
                    let v = self.fr;
                    self.push(v)
                }
                _ => {
                    let v = self.pop();
                    self.fr = v;
                }
            },
            0x2 => match s {
                0 | 1 => {
                    // JR cond
                    let cond = op & 7;
                    let base = match cond & 3 {
                        0 => true,
                        1 => self.fr & C != 0,
                        2 => self.fr & Z != 0,
                        _ => self.fr & N != 0,
                    };
                    let take = base ^ (cond & 4 != 0);
                    if take {
                        let off = self.fetch();
                        let t = self.r[3].wrapping_add(off);
                        self.set(3, t);
                    } else {
                        self.inc(3);
                    }
                }
                2 => {
                    // CALL
                    let sp = self.sp.wrapping_sub(1);
                    self.set_sp(sp);
                    let ap = self.r[3];
                    self.set(3, ap.wrapping_add(1));
                    let ret = self.r[3];
                    self.wr(sp, ret);
                    let t = self.rd(ap);
                    self.set(3, t);
                }
                _ => {
                    // RETI
                    let pc = self.pop();
                    self.set(3, pc);
                    self.fr = self.pop();
                }
            },
            0x3 => {
                let v = self.r[d];
                match s {
                    0 => {
                        let r = !v;
                        self.set(d, r);
                        self.flags(false, r)
                    }
                    1 => {
                        let r = (!v).wrapping_add(1);
                        self.set(d, r);
                        self.flags(v == 0, r)
                    }
                    2 => {
                        let r = v >> 1;
                        self.set(d, r);
                        self.flags(v & 1 != 0, r)
                    }
                    _ => {
                        let r = (v >> 1) | (v & 0x80);
                        self.set(d, r);
                        self.flags(v & 1 != 0, r)
                    }
                }
            }
            0x4 => {
                let v = self.r[d];
                match s {
                    0 => {
                        let r = (v >> 1) | ((self.cf() as u8) << 7);
                        self.set(d, r);
                        self.flags(v & 1 != 0, r)
                    }
                    1 => {
                        let r = v.wrapping_add(1);
                        self.set(d, r);
                        self.flags(v == 0xFF, r)
                    }
                    2 => self.flags(false, v),
                    _ => return Outcome::Hang,
                }
            }
            0x5 => {
                // DEC with addressing mode s
                match s {
                    0 => {
                        let v = self.r[d];
                        let r = v.wrapping_sub(1);
                        self.set(d, r);
                        self.flags(v == 0, r)
                    }
                    1 => {
                        let a = self.r[d];
                        let v = self.rd(a);
                        let r = v.wrapping_sub(1);
                        self.flags(v == 0, r);
                        self.wr(a, r)
                    }
                    2 => {
                        let a = self.r[d];
                        let v = self.rd(a);
                        let r = v.wrapping_sub(1);
                        self.flags(v == 0, r);
                        self.wr(a, r);
                        self.inc(d)
                    }
                    _ => {
                        let a = self.r[d];
                        let p = self.rd(a);
                        let v = self.rd(p);
                        let r = v.wrapping_sub(1);
                        self.flags(v == 0, r);
                        self.wr(p, r);
                        self.inc(d)
                    }
                }
            }
            0x6 => {
                let t = self.r[d] as u16 + self.r[s] as u16;
                self.set(d, t as u8);
                self.flags(t > 255, t as u8)
            }
            0x7 => {
                let t = self.r[d] as u16 + self.r[s] as u16 + self.cf() as u16;
                self.set(d, t as u8);
                self.flags(t > 255, t as u8)
            }
            0x8 => {
                let (a, b) = (self.r[d], self.r[s]);
                let r = a.wrapping_sub(b);
                self.set(d, r);
                self.flags(a < b, r)
            }
            0x9 => {
                let r = self.r[d] & self.r[s];
                self.set(d, r);
                self.flags(false, r)
            }
            0xA => {
                let r = self.r[d] | self.r[s];
                self.set(d, r);
                self.flags(false, r)
            }
            0xB => {
                let p = self.r[d] as u16 * self.r[s] as u16;
                self.set(d, p as u8);
                self.flags(p > 255, p as u8)
            }
            0xC => {
                let (a, b) = (self.r[d], self.r[s]);
                if b == 0 {
                    self.set(d, 0xFF);
                    self.flags(true, 0xFF)
                } else {
                    let q = a / b;
                    self.set(d, q);
                    self.flags(false, q)
                }
            }
            0xD => {
                let r = self.r[d] ^ self.r[s];
                self.set(d, r);
                self.flags(false, r)
            }
            0xE => return Outcome::Hang,
            _ => {
                // two byte: source mode s, reg d
                let (src, _) = self.operand(s as u8, d);
                let op2 = self.fetch();
                let d2 = (op2 & 3) as usize;
                let m2 = (op2 >> 2) & 3;
                match op2 >> 4 {
                    0x1 => match m2 {
                        0 => self.set(d2, src),
                        1 => {
                            let a = self.r[d2];
                            self.wr(a, src)
                        }
                        2 => {
                            let a = self.r[d2];
                            self.wr(a, src);
                            self.inc(d2)
                        }
                        _ => {
                            let a = self.r[d2];
                            let p = self.rd(a);
                            self.wr(p, src);
                            self.inc(d2)
                        }
                    },
                    0x2 => {
                        let (dv, _) = self.operand(m2, d2);
                        let r = dv.wrapping_sub(src);
                        self.flags(dv < src, r)
                    }
                    0x3 => {
                        let (dv, _) = self.operand(m2, d2);
                        let r = dv & src;
                        self.flags(false, r)
                    }
                    0x4 => match m2 {
                        0 => {
                            self.set_sp(src);
                            self.flags(false, src)
                        }
                        1 => self.fr = src,
                        _ => return Outcome::Undefined,
                    },
                    0x5 | 0x6 => {
                        let f = |dv: u8| if op2 >> 4 == 5 { dv | src } else { dv & !src };
                        match m2 {
                            0 => {
                                let r = f(self.r[d2]);
                                self.set(d2, r);
                                self.flags(false, r)
                            }
                            1 => {
                                let a = self.r[d2];
                                let r = f(self.rd(a));
                                self.flags(false, r);
                                self.wr(a, r)
                            }
                            2 => {
                                let a = self.r[d2];
                                let r = f(self.rd(a));
                                self.flags(false, r);
                                self.wr(a, r);
                                self.inc(d2)
                            }
                            _ => {
                                let a = self.r[d2];
                                let p = self.rd(a);
                                let r = f(self.rd(p));
                                // BITC re-reads the pointer after computing; BITS keeps it in a scratch register
                                let p2 = if op2 >> 4 == 6 { self.rd(a) } else { p };
                                self.flags(false, r);
                                self.wr(p2, r);
                                self.inc(d2)
                            }
                        }
                    }
                    _ => return Outcome::Undefined,
                }
            }
        }
        self.steps += 1;
        Outcome::Done
    }
}

/// documented micro-step count (words incl. the closing fetch word) for the instruction starting with `op`
pub fn steps(op: u8, op2: u8, rd: u8, rs: u8) -> u32 {
    let s = (op >> 2) & 3;
    match op >> 4 {
        0x0 => match op {
            0x02..=0x07 => 2,
            0x08..=0x0F => 3,
            _ => 0,
        },
        0x1 => match s {
            3 => 3,
            _ => 4,
        },
        0x2 => match s {
            0 | 1 => 3,
            2 => 6,
            _ => 5,
        },
        0x3 => {
            if s == 1 {
                3
            } else {
                2
            }
        }
        0x4 => 2,
        0x5 => [2, 4, 5, 6][s as usize],
        0x6 | 0x7 => 2,
        0x8 => 4,
        0x9 => 7,
        0xA => 5,
        0xD => 8,
        0xB => {
            let iters = if rd == 0 { 1 } else { 8 - rd.leading_zeros() };
            3 * iters + rd.count_ones() + 3
        }
        0xC => {
            if rs == 0 {
                5
            } else {
                2 * (rd / rs) as u32 + 6
            }
        }
        0xF => {
            let src = [2, 2, 3, 4][s as usize];
            let m = ((op2 >> 2) & 3) as usize;
            let dst = match op2 >> 4 {
                1 => [2, 2, 3, 4][m],
                2 => [4, 4, 5, 6][m],
                3 => [5, 5, 6, 7][m],
                4 => 2,
                5 => [4, 4, 5, 6][m],
                6 => [5, 5, 6, 8][m],
                _ => 0,
            };
            src + dst
        }
        _ => 0,
    }
}
