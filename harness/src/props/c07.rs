//! C07 — CPU reset, master reset and program load restore exactly the documented state.
//! Histories of operations; after every prefix each kind of reset is applied to a clone.
use crate::engine::*;
use crate::mach::*;
use crate::progen_sem::*;
use emulator_2a_lib::compiler::ByteCode;
use emulator_2a_lib::machine::{Machine, MachineConfig, RawMachine, State, StepMode};
use emulator_2a_lib::parser::{Line, Programsize, Stacksize};
use proptest::prelude::*;
use serde::{Deserialize, Serialize};
use serde_json::json;

#[derive(Clone, Debug, Serialize, Deserialize)]
pub enum Op {
    /// load a program: image, stack size index (5 = NOSET), program size (0 = explicit n, 1 = AUTO, 2 = NOSET), n
    Load(Vec<u8>, u8, u8, u8),
    Edges(u8),
    AsmSteps(u8),
    KeyInt,
    Continue,
    CpuReset,
    MasterReset,
    Input(u8, u8),
    DigitalIn(u8),
    Volt(u8, u32),
    Jumper(u8, bool),
    Uio(u8, bool),
    /// direct bus write to 0xF0..=0xFF
    Port(u8, u8),
    StepMode(bool),
    /// arm the board interrupt (write 0b11xxxxxx to 0xF2: source 1..=6, falling?, IE, edge) and then
    /// drive the selected input through both edges, so that the board's interrupt status gets latched
    BoardInt(u8, bool, u8),
}

#[derive(Clone, Debug, Serialize, Deserialize)]
pub struct Case {
    pub ops: Vec<Op>,
    /// follow-up program for the load check (tame: only RAM and FC-FF)
    pub follow: Vec<Tm>,
    pub follow_stack: u8,
    pub follow_auto: bool,
    pub follow_inputs: [u8; 4],
}

fn bytecode(image: &[u8], stack: u8, pkind: u8, n: u8) -> ByteCode {
    let mut img = image.to_vec();
    img.truncate(0xF0);
    let stacksize = match stack {
        0 => Stacksize::_0,
        1 => Stacksize::_16,
        2 => Stacksize::_32,
        3 => Stacksize::_48,
        4 => Stacksize::_64,
        _ => Stacksize::NotSet,
    };
    let programsize = match pkind {
        0 => Programsize::Size(n),
        1 => Programsize::Auto,
        _ => Programsize::NotSet,
    };
    ByteCode { lines: vec![(Line::Empty(None), img)], stacksize, programsize }
}

fn image_strategy() -> impl Strategy<Value = Vec<u8>> {
    prop::collection::vec(prop_oneof![6 => tm_any(), 2 => (0xF0u8..=0xFF, 0u8..4).prop_map(|(a, r)| Tm::StAbs(a, r)), 1 => Just(Tm::Stop)], 1..40).prop_map(|p| {
        let mut v = assemble(&p);
        v.truncate(0xF0);
        v
    })
}

fn op_strategy() -> impl Strategy<Value = Op> {
    prop_oneof![
        3 => (image_strategy(), 0u8..6, 0u8..3, any::<u8>()).prop_map(|(i, s, k, n)| Op::Load(i, s, k, n)),
        10 => (1u8..=60).prop_map(Op::Edges),
        3 => (1u8..5).prop_map(Op::AsmSteps),
        3 => Just(Op::KeyInt),
        1 => Just(Op::Continue),
        1 => Just(Op::CpuReset),
        1 => Just(Op::MasterReset),
        3 => (0u8..4, any::<u8>()).prop_map(|(i, v)| Op::Input(i, v)),
        1 => any::<u8>().prop_map(Op::DigitalIn),
        2 => (0u8..3, crate::props::c13::volt_bits()).prop_map(|(i, v)| Op::Volt(i, v)),
        1 => (0u8..2, any::<bool>()).prop_map(|(i, v)| Op::Jumper(i, v)),
        2 => (0u8..3, any::<bool>()).prop_map(|(i, v)| Op::Uio(i, v)),
        8 => (0xF0u8..=0xFF, any::<u8>()).prop_map(|(a, v)| Op::Port(a, v)),
        1 => any::<bool>().prop_map(Op::StepMode),
        2 => (1u8..=6, any::<bool>(), 0u8..4).prop_map(|(s, f, e)| Op::BoardInt(s, f, e)),
    ]
}

pub fn case_strategy() -> impl Strategy<Value = Case> {
    (
        prop::collection::vec(op_strategy(), 0..40),
        prop::collection::vec(
            prop_oneof![
                6 => tm_tame(0x80, 0xEF),
                2 => (0u8..3, 0xFCu8..=0xFF).prop_map(|(r, a)| Tm::LdAbs(r, a)),
                2 => (0xFEu8..=0xFF, 0u8..3).prop_map(|(a, r)| Tm::StAbs(a, r)),
                1 => (0u8..3).prop_map(Tm::Push),
                1 => (0u8..3).prop_map(Tm::Pop),
                1 => (0u8..4).prop_map(Tm::Ei),
                1 => (0u8..4).prop_map(Tm::Di),
            ],
            1..40,
        ),
        0u8..5,
        any::<bool>(),
        [any::<u8>(), any::<u8>(), any::<u8>(), any::<u8>()],
    )
        .prop_map(|(ops, follow, follow_stack, follow_auto, follow_inputs)| Case { ops, follow, follow_stack, follow_auto, follow_inputs })
}

fn apply(m: &mut Machine, op: &Op) {
    match op {
        Op::Load(img, s, k, n) => m.load(bytecode(img, *s, *k, *n)),
        Op::Edges(n) => {
            let mode = m.step_mode();
            m.set_step_mode(StepMode::Real);
            for _ in 0..*n {
                m.trigger_key_clock();
            }
            m.set_step_mode(mode);
        }
        Op::AsmSteps(n) => {
            let mode = m.step_mode();
            m.set_step_mode(StepMode::Assembly);
            for _ in 0..*n {
                m.trigger_key_clock();
            }
            m.set_step_mode(mode);
        }
        Op::KeyInt => m.trigger_key_interrupt(),
        Op::Continue => m.trigger_key_continue(),
        Op::CpuReset => m.cpu_reset(),
        Op::MasterReset => m.master_reset(),
        Op::Input(i, v) => set_input(m, *i, *v),
        Op::DigitalIn(v) => m.set_digital_input1(*v),
        Op::Volt(i, bits) => {
            let v = f32::from_bits(*bits);
            match i {
                0 => m.set_temp(v),
                1 => m.set_analog_input1(v),
                _ => m.set_analog_input2(v),
            }
        }
        Op::Jumper(i, v) => {
            if *i == 0 {
                m.set_jumper1(*v)
            } else {
                m.set_jumper2(*v)
            }
        }
        Op::Uio(i, v) => match i {
            0 => m.set_universal_input_output1(*v),
            1 => m.set_universal_input_output2(*v),
            _ => m.set_universal_input_output3(*v),
        },
        Op::Port(a, v) => m.raw_mut().bus_mut().write(*a, *v),
        Op::StepMode(a) => m.set_step_mode(if *a { StepMode::Assembly } else { StepMode::Real }),
        Op::BoardInt(src, falling, ie_edge) => {
            m.raw_mut().bus_mut().write(0xF2, 0xC0 | (ie_edge & 3) << 4 | (*falling as u8) << 3 | (src & 7));
            for level in [false, true, false] {
                match src {
                    1 => m.set_universal_input_output1(level),
                    2 => m.set_universal_input_output2(level),
                    3 => m.set_universal_input_output3(level),
                    4 => m.set_analog_input1(if level { 5.0 } else { 0.0 }),
                    5 => m.set_analog_input2(if level { 5.0 } else { 0.0 }),
                    _ => m.set_jumper1(level),
                }
            }
        }
    }
}

fn set_input(m: &mut Machine, i: u8, v: u8) {
    match i {
        0 => m.set_input_fc(v),
        1 => m.set_input_fd(v),
        2 => m.set_input_fe(v),
        _ => m.set_input_ff(v),
    }
}

type Res = Result<(), (String, String)>;

/// power-on values of the CPU part (A)
fn check_power_on(m: &Machine, which: &str) -> Res {
    let fresh = RawMachine::new().verif_snapshot();
    let s = m.verif_snapshot();
    let regs = m.registers().content();
    let f = |sig: &str, d: String| -> Res { Err((format!("reset:{}:{}", which, sig), d)) };
    if regs.iter().any(|r| *r != 0) {
        return f("registers", format!("registers after reset: {:02X?}", regs));
    }
    if m.bus().output_fe() != 0 || m.bus().output_ff() != 0 {
        return f("output-registers", format!("outputs after reset: {:02X} {:02X}", m.bus().output_fe(), m.bus().output_ff()));
    }
    if m.bus().is_key_edge_int_enabled() || m.bus().is_timer_edge_int_enabled() {
        return f("micr", "interrupt enable mask not cleared".into());
    }
    if m.state() != State::Running {
        return f("state", format!("state {:?} after reset", m.state()));
    }
    if s.micro_address != fresh.micro_address || s.instruction_register != fresh.instruction_register {
        return f("sequencer", format!("micro-address {:03X} IR {:02X} after reset (power-on: {:03X} / {:02X})", s.micro_address, s.instruction_register, fresh.micro_address, fresh.instruction_register));
    }
    if s.pending_register_write.is_some() || s.pending_flag_write || s.pending_wait_for_memory {
        return f("pending-writes", format!("pending after reset: {:?}", s));
    }
    if s.pending_edge_interrupt {
        return f("pending-key-interrupt", "pending key interrupt survived the reset".into());
    }
    if s.pending_level_interrupt != fresh.pending_level_interrupt {
        return f("pending-level-interrupt", "a latched level interrupt survived the reset".into());
    }
    if s != fresh {
        return f("control-state", format!("private control state after the reset differs from power-on: {:?} vs {:?}", s, fresh));
    }
    if s.alu_output != fresh.alu_output || s.last_bus_read != fresh.last_bus_read {
        return f("latches", format!("ALU latch / bus latch after reset: {:?} / {:02X}", s.alu_output, s.last_bus_read));
    }
    Ok(())
}

/// two machines that must have been made indistinguishable
fn must_equal(a: &Machine, b: &Machine, sig: String, what: &str) -> Res {
    if **a != **b {
        Err((sig, format!("two machines differing only in {} are still distinguishable after the reset", what)))
    } else {
        Ok(())
    }
}

fn check_cpu_reset(m: &Machine) -> Res {
    let before = m.clone();
    let mut a = m.clone();
    a.cpu_reset();
    check_power_on(&a, "cpu")?;
    let f = |sig: &str, d: String| -> Res { Err((format!("reset:cpu:{}", sig), d)) };
    if a.bus().memory()[..] != before.bus().memory()[..] {
        return f("ram-touched", "CPU reset changed RAM".into());
    }
    for ad in 0xFCu8..=0xFF {
        if a.bus().read(ad) != before.bus().read(ad) {
            return f("input-registers-touched", format!("CPU reset changed input register {:02X}", ad));
        }
    }
    if a.bus().board() != before.bus().board() {
        return f("board-touched", "CPU reset changed the extension board".into());
    }
    if a.stacksize() != before.stacksize() || a.programsize() != before.programsize() {
        return f("limits-touched", "CPU reset changed the stack/program size limits".into());
    }
    if a.step_mode() != before.step_mode() {
        return f("step-mode-touched", "CPU reset changed the step mode".into());
    }
    // forgetting: state that the reset must erase
    let mut x = m.clone();
    x.raw_mut().bus_mut().write(0xFE, 0xA5);
    x.raw_mut().bus_mut().write(0xFF, 0x5A);
    x.raw_mut().bus_mut().write(0xF9, 0x3F);
    x.raw_mut().bus_mut().write(0xFB, 0xF8);
    for (i, r) in REGS.iter().enumerate() {
        x.raw_mut().registers_mut().set(*r, 0x11 * (i as u8 + 1));
    }
    x.cpu_reset();
    must_equal(&x, &a, "reset:cpu:not-forgotten".into(), "output registers, MICR, UCR and CPU registers")?;
    // retention: timer settings and inputs must survive
    for (k, (ad, v)) in [(0xFCu8, 0x77u8), (0xFDu8, 0x9E), (0xFD, 0x33)].iter().enumerate() {
        let mut y = m.clone();
        y.raw_mut().bus_mut().write(*ad, *v);
        if *y != **m {
            y.cpu_reset();
            if *y == *a {
                return f("timer-settings-lost", format!("timer write #{} ({:02X}:={:02X}) was erased by a CPU reset", k, ad, v));
            }
        }
    }
    Ok(())
}

fn check_master_reset(m: &Machine) -> Res {
    let before = m.clone();
    let mut a = m.clone();
    a.master_reset();
    check_power_on(&a, "master")?;
    check_master_effects(&a, &before, "master")?;
    // forgetting: inputs and timer in addition
    let mut x = m.clone();
    x.raw_mut().bus_mut().write(0xFE, 0xA5);
    x.raw_mut().bus_mut().write(0xF9, 0x3F);
    x.raw_mut().bus_mut().write(0xFB, 0xF8);
    x.raw_mut().bus_mut().write(0xFC, 0x12);
    x.raw_mut().bus_mut().write(0xFD, 0x9F);
    x.raw_mut().bus_mut().write(0xFD, 0x45);
    x.set_input_fc(0xC1);
    x.set_input_ff(0x1C);
    x.master_reset();
    must_equal(&x, &a, "reset:master:not-forgotten".into(), "outputs, MICR, UCR, timer settings and input registers")?;
    // retention: RAM and physical board inputs
    let mut y = m.clone();
    y.raw_mut().bus_mut().write(0x42, m.bus().read(0x42) ^ 0xFF);
    y.master_reset();
    if *y == *a {
        return Err(("reset:master:ram-lost".into(), "a RAM difference was erased by the master reset".into()));
    }
    Ok(())
}

fn check_master_effects(a: &Machine, before: &Machine, which: &str) -> Res {
    let f = |sig: &str, d: String| -> Res { Err((format!("reset:{}:{}", which, sig), d)) };
    for ad in 0xFCu8..=0xFF {
        if a.bus().read(ad) != 0 {
            return f("input-registers-not-cleared", format!("input register {:02X} = {:02X} after the reset", ad, a.bus().read(ad)));
        }
    }
    let b = a.bus().board();
    let pb = before.bus().board();
    if *b.digital_output1() != 0 || *b.digital_output2() != 0 {
        return f("board-output-ports", format!("board output ports {:02X}/{:02X} after the reset", b.digital_output1(), b.digital_output2()));
    }
    if b.analog_outputs()[0] != 0.0 || b.analog_outputs()[1] != 0.0 {
        return f("board-analog-outputs", format!("analog outputs {:?} after the reset", b.analog_outputs()));
    }
    if !b.daicr().is_empty() {
        return f("board-interrupt-control", format!("DAICR {:02X} after the reset", b.daicr().bits()));
    }
    if *b.fan_rpm() != 0 {
        return f("board-fan", format!("fan at {} rpm after the reset", b.fan_rpm()));
    }
    if b.uio_dir().iter().any(|d| *d) {
        return f("board-uio-directions", format!("UIO directions {:?} after the reset", b.uio_dir()));
    }
    if which != "load" && a.bus().memory()[..] != before.bus().memory()[..] {
        return f("ram-touched", "master reset changed RAM".into());
    }
    if b.digital_input1() != pb.digital_input1() || b.temp().to_bits() != pb.temp().to_bits() || b.analog_inputs()[0].to_bits() != pb.analog_inputs()[0].to_bits() || b.analog_inputs()[1].to_bits() != pb.analog_inputs()[1].to_bits() {
        return f("board-physical-inputs-touched", "physical board inputs changed by the reset".into());
    }
    if (b.dasr().bits() ^ pb.dasr().bits()) & 0xC0 != 0 {
        return f("board-jumpers-touched", "jumper levels changed by the reset".into());
    }
    // the statement lists exactly what a master reset clears on the board (output ports, interrupt
    // control, fan, UIO directions); the latched interrupt status (DA-ISR, read at 0xF3) is not among
    // them and the title says "exactly the documented state": it survives
    if b.daisr().bits() != pb.daisr().bits() {
        return f("board-interrupt-status-touched", format!("board interrupt status {:02X} -> {:02X} by the reset", pb.daisr().bits(), b.daisr().bits()));
    }
    if which != "load" && (a.stacksize() != before.stacksize() || a.programsize() != before.programsize()) {
        return f("limits-touched", "reset changed the stack/program size limits".into());
    }
    if a.step_mode() != before.step_mode() {
        return f("step-mode-touched", "reset changed the step mode".into());
    }
    Ok(())
}

fn check_load(m: &Machine, c: &Case, edges: usize) -> Result<u64, (String, String)> {
    let before = m.clone();
    let mut prog = vec![Tm::LdSp(0xE0)];
    prog.extend(c.follow.iter().cloned());
    let mut image = assemble(&prog);
    image.truncate(0xD0);
    let (pk, n) = if c.follow_auto { (1u8, 0u8) } else { (0u8, 0xEFu8) };
    let mut a = m.clone();
    a.load(bytecode(&image, c.follow_stack, pk, n));
    check_power_on(&a, "load")?;
    check_master_effects(&a, &before, "load")?;
    let f = |sig: &str, d: String| -> Result<u64, (String, String)> { Err((format!("reset:load:{}", sig), d)) };
    let mem = a.bus().memory();
    if mem[..image.len()] != image[..] || mem[image.len()..].iter().any(|b| *b != 0) {
        return f("ram-image", "RAM after load is not the image followed by zeros".into());
    }
    if a.stacksize() != STACKSIZES[c.follow_stack as usize] {
        return f("stacksize", format!("stack size {:?} after load", a.stacksize()));
    }
    let exp_ps = if c.follow_auto { Programsize::Size(image.len() as u8) } else { Programsize::Size(n) };
    if a.programsize() != exp_ps {
        return f("programsize", format!("program size {:?} after load, expected {:?}", a.programsize(), exp_ps));
    }
    // NOSET keeps the previous limits
    let mut k = m.clone();
    k.load(bytecode(&image, 5, 2, 0));
    if k.stacksize() != before.stacksize() || k.programsize() != before.programsize() {
        return f("noset-limits", format!("NOSET program changed the limits from {:?}/{:?} to {:?}/{:?}", before.stacksize(), before.programsize(), k.stacksize(), k.programsize()));
    }
    // the same program loaded once more on top of itself, with the outside world changed in between
    // (no clock edge): every load is a master reset, whatever was loaded before
    {
        let bc = bytecode(&image, c.follow_stack, pk, n);
        let mut b2 = a.clone();
        for i in 0..4u8 {
            set_input(&mut b2, i, c.follow_inputs[i as usize] | 1);
        }
        b2.raw_mut().bus_mut().write(0xFE, 0x5A);
        b2.raw_mut().bus_mut().write(0xF9, 0x01);
        // (no key press here: the interrupt status register survives every reset)
        b2.load(bc);
        if *b2 != *a || b2.step_mode() != a.step_mode() {
            let what = if (0xFCu8..=0xFF).any(|ad| b2.bus().read(ad) != 0) { "input registers" } else { "machine state" };
            return f("second-load-of-the-same-program", format!("loading the same program again (after input changes and port writes, no clock edge) does not give the freshly loaded state: {} differ", what));
        }
    }
    // the two limits are independent: an explicit stack size with a NOSET program size, and the other way round
    let mut k = m.clone();
    k.load(bytecode(&image, c.follow_stack, 2, 0));
    if k.stacksize() != STACKSIZES[c.follow_stack as usize] || k.programsize() != before.programsize() {
        return f("mixed-limits", format!("*STACKSIZE {:?} with *PROGRAMSIZE NOSET on limits {:?}/{:?} gives {:?}/{:?}", STACKSIZES[c.follow_stack as usize], before.stacksize(), before.programsize(), k.stacksize(), k.programsize()));
    }
    let mut k = m.clone();
    k.load(bytecode(&image, 5, pk, n));
    if k.stacksize() != before.stacksize() || k.programsize() != exp_ps {
        return f("mixed-limits", format!("*STACKSIZE NOSET with program size {:?} on limits {:?}/{:?} gives {:?}/{:?}", exp_ps, before.stacksize(), before.programsize(), k.stacksize(), k.programsize()));
    }
    // lock-step with a freshly created machine
    let mut fresh = Machine::new(MachineConfig::default());
    fresh.load(bytecode(&image, c.follow_stack, pk, n));
    a.set_step_mode(StepMode::Real);
    for i in 0..4u8 {
        set_input(&mut a, i, c.follow_inputs[i as usize]);
        set_input(&mut fresh, i, c.follow_inputs[i as usize]);
    }
    // the same follow-up program stepped in Assembly mode on clones (state hidden from the getters
    // and from PartialEq that survives a load would show here)
    {
        let (mut a2, mut f2) = (a.clone(), fresh.clone());
        a2.set_step_mode(StepMode::Assembly);
        f2.set_step_mode(StepMode::Assembly);
        for k in 0..40 {
            a2.trigger_key_clock();
            f2.trigger_key_clock();
            if a2.registers().content() != f2.registers().content() || a2.state() != f2.state() || a2.bus().memory()[..] != f2.bus().memory()[..] || a2.is_instruction_done() != f2.is_instruction_done() {
                return f("follow-up-diverges-in-assembly-steps", format!("assembly step {}: loaded machine and fresh machine differ (regs {:02X?} vs {:02X?}, state {:?} vs {:?})", k, a2.registers().content(), f2.registers().content(), a2.state(), f2.state()));
            }
            if a2.state() != State::Running {
                break;
            }
        }
    }
    for e in 0..edges {
        a.trigger_key_clock();
        fresh.trigger_key_clock();
        if a.registers().content() != fresh.registers().content() || a.state() != fresh.state() || a.bus().output_fe() != fresh.bus().output_fe() || a.bus().output_ff() != fresh.bus().output_ff() || a.bus().memory()[..] != fresh.bus().memory()[..] {
            return f(
                "follow-up-diverges",
                format!(
                    "edge {}: loaded machine and fresh machine differ (regs {:02X?} vs {:02X?}, state {:?} vs {:?})",
                    e, a.registers().content(), fresh.registers().content(), a.state(), fresh.state()
                ),
            );
        }
        if a.state() != State::Running {
            return Ok(e as u64);
        }
    }
    Ok(edges as u64)
}

#[derive(Default)]
pub struct Stats {
    pub prefixes: u64,
    pub lockstep_edges: u64,
    pub rich_prefixes: u64,
    pub latched_board_int: u64,
}

fn richness(m: &Machine) -> u32 {
    let s = m.verif_snapshot();
    let b = m.bus().board();
    [
        m.bus().output_fe() != 0 || m.bus().output_ff() != 0,
        m.bus().is_key_edge_int_enabled() || m.bus().is_timer_edge_int_enabled(),
        *b.digital_output1() != 0 || *b.digital_output2() != 0 || !b.daicr().is_empty() || b.uio_dir().iter().any(|d| *d),
        s.pending_edge_interrupt,
        s.micro_address != 0 || s.pending_register_write.is_some() || s.pending_wait_for_memory,
        m.registers().content().iter().any(|r| *r != 0),
    ]
    .iter()
    .filter(|x| **x)
    .count() as u32
}

pub fn check_case(c: &Case, edges: usize) -> (Verdict, Stats) {
    let mut st = Stats::default();
    let mut m = Machine::new(MachineConfig::default());
    for i in 0..=c.ops.len() {
        st.prefixes += 1;
        if richness(&m) >= 2 {
            st.rich_prefixes += 1;
        }
        if !m.bus().board().daisr().is_empty() {
            st.latched_board_int += 1;
        }
        let r = catch(|| -> Result<u64, (String, String)> {
            check_cpu_reset(&m)?;
            check_master_reset(&m)?;
            check_load(&m, c, edges)
        });
        match r {
            Ok(Ok(e)) => st.lockstep_edges += e,
            Ok(Err((s, d))) => return (Verdict::Fail(s, format!("after {} operations of the history: {}", i, d)), st),
            Err(p) => return (Verdict::Fail(panic_signature(&p), format!("panic after {} operations: {}", i, p)), st),
        }
        if i < c.ops.len() {
            if let Err(p) = catch(|| apply(&mut m, &c.ops[i])) {
                return (Verdict::Fail(panic_signature(&p), format!("panic in history op #{}: {}", i, p)), st);
            }
        }
    }
    (Verdict::Pass, st)
}

pub fn run(ctx: &Ctx) -> Evidence {
    let mut ev = Evidence::new(
        "exploration",
        "proptest histories (<= 40 ops) of program loads (stack size 0..64/NOSET, program size n/AUTO/NOSET), clock edges in both step modes, key interrupt, continue, resets, input and board setters, direct writes to 0xF0-0xFF; after EVERY prefix a CPU reset, a master reset and a load of a follow-up program are applied to clones and checked (power-on values via getters + hook snapshot, preserved parts, forgetting/retention as metamorphic clone relations, lock-step of the follow-up program with a fresh machine); non-trivial = prefix state with at least two of {output register, MICR, board output/config, pending key interrupt, non-reset micro-state, non-zero registers}; distinct by hash of (case, prefix)",
    );
    ev.assumptions.push("comparator and UIO level bits of the board's status register after a master reset are not constrained (the statement is silent); the latched interrupt status (DA-ISR) is required to survive, since it is not in the statement's list of what a master reset clears".into());
    ev.assumptions.push("MISR status bits are not part of any reset clause".into());
    let edges = ctx.tier.pick(600, 2000);
    if let Some(path) = &ctx.replay {
        let doc: serde_json::Value = serde_json::from_str(&std::fs::read_to_string(path).expect("replay")).expect("json");
        let c: Case = serde_json::from_value(doc["case"].clone()).expect("case");
        ev.evaluations = 1;
        if let (Verdict::Fail(s, d), _) = check_case(&c, 2000) {
            ev.violation("history", &s, d, doc["case"].clone());
        }
        return ev;
    }
    let known: Vec<String> = load_known("C07").into_iter().map(|k| k.signature).collect();
    let n: u64 = ctx.tier.pick(150_000, 3_000_000);
    let collected = std::sync::Mutex::new(Evidence::new("", ""));
    let res = par_search(ctx.threads, 32, ctx.seed, n, case_strategy, &known, |c, first, _| {
        let (v, st) = check_case(c, edges);
        if first {
            let mut e = collected.lock().unwrap();
            e.evaluations += 1;
            *e.classes.entry("prefixes-checked(x3 resets)".into()).or_insert(0) += st.prefixes;
            *e.classes.entry("follow-up-lockstep-edges".into()).or_insert(0) += st.lockstep_edges;
            *e.classes.entry("rich-prefixes".into()).or_insert(0) += st.rich_prefixes;
            *e.classes.entry("prefixes-with-latched-board-interrupt-status".into()).or_insert(0) += st.latched_board_int;
            if st.rich_prefixes > 0 {
                e.nontrivial(&serde_json::to_string(c).unwrap());
            }
            if e.samples.len() < 3 && c.ops.len() < 8 && st.rich_prefixes > 0 {
                let s = json!({"ops": format!("{:?}", c.ops).chars().take(600).collect::<String>(), "follow_up_bytes": hex(&assemble(&c.follow))});
                e.samples.push(s);
            }
        }
        v
    });
    for r in res {
        if let Some((c, s, d)) = r.failure {
            ev.violation("history", &s, d, serde_json::to_value(&c).unwrap());
        }
        for (c, s, d) in r.tolerated {
            ev.violation("history", &s, d, serde_json::to_value(&c).unwrap());
        }
    }
    ev.merge(collected.into_inner().unwrap());
    ev
}
