//! C01 (instruction semantics) and C15 (cycle cost) — same generators, different oracle.
//!
//! (a) single instructions from arbitrary states, (b) exhaustive ALU / unary sweeps,
//! (c) lock-step sequences that are never re-synchronised.
use crate::engine::*;
use crate::isa::{steps, Outcome, Ref};
use crate::mach::*;
use crate::progen_sem::*;
use emulator_2a_lib::machine::{Machine, State};
use proptest::prelude::*;
use serde::{Deserialize, Serialize};
use serde_json::json;

#[derive(Clone, Copy, PartialEq, Eq)]
pub enum Which {
    Semantics, // C01
    Cycles,    // C15
}

// -------------------------------------------------------------------------------------
// one lock-step instruction

pub enum StepEnd {
    /// compared fine, machine still running at a boundary
    Continue,
    /// sequence ends here without a finding (halt, undefined byte, SP supervision)
    End(&'static str),
    /// STOP fetched, machine and model agree; the continue key resumes with the next instruction
    Stopped,
    /// mismatch: (signature, detail)
    Mismatch(String, String),
}

pub struct StepInfo {
    pub up: Upcoming,
    pub nontrivial: bool,
    pub io_access: bool,
    pub data_dependent: bool,
    pub edges: Option<usize>,
}

/// `m` sits at a boundary and `r` is in sync.  Execute one instruction on both and compare.
pub fn lockstep(m: &mut Machine, r: &mut Ref, assembly: bool, which: Which) -> (StepEnd, StepInfo) {
    lockstep_irq(m, r, assembly, which, false)
}

/// opcodes whose last control word samples the interrupt flip-flop (all but EI, DI, RETI)
pub fn samples_interrupt(op: u8) -> bool {
    !((0x08..=0x0F).contains(&op) || (0x2C..=0x2F).contains(&op))
}

/// `irq`: the key-interrupt flip-flop is pending at this boundary (enable bit set, key pressed): if the
/// instruction samples it and IEF is set when it ends, the entry sequence is part of the step.
pub fn lockstep_irq(m: &mut Machine, r: &mut Ref, assembly: bool, which: Which, irq: bool) -> (StepEnd, StepInfo) {
    let up = upcoming(r);
    let before = r.clone();
    r.ram_accesses = 0;
    let pc0 = r.r[3];
    let mut out = r.step();
    let mut entry_words = 0u32;
    if irq && out == Outcome::Done && samples_interrupt(up.op) && r.fr & 0x08 != 0 {
        // entry: push FR, push PC, clear IEF (and the upper bits), PC := 2 — 8 control words
        r.interrupt_entry();
        entry_words = 8;
    }
    if irq && out == Outcome::Done && up.op >= 0xF0 && up.op2 == 0x2C {
        // the library drops interrupt status bits when 0x2C is loaded into the IR, so a read of the
        // status register *after* that latch (the ((R0+)) destination chain) is outside the
        // instruction-level model; everything else about this CMP is checked like any other
        let peek = |a: u8| -> Option<u8> {
            if a <= 0xEF {
                Some(before.ram[a as usize])
            } else if a >= 0xFC {
                Some(before.inp[(a - 0xFC) as usize])
            } else {
                None
            }
        };
        let mut through_io = false;
        for p in [before.r[0], before.r[0].wrapping_add(1)] {
            match peek(p) {
                None => through_io = true,
                Some(a) => through_io |= peek(a).is_none(),
            }
        }
        if through_io {
            out = Outcome::Undefined;
        }
    }
    // SP supervision (stack size 0): any SP value written on the way, not only the final one
    let sp_invalid = r.sp >= 0xF0 || r.sp_trace.iter().any(|v| *v >= 0xF0);
    let group = if entry_words > 0 { format!("{}+irq", group_name(&up)) } else { group_name(&up) };
    let changed = before.r[..3] != r.r[..3] || before.fr != r.fr || before.sp != r.sp || before.ram[..] != r.ram[..] || before.out != r.out;
    let branch = matches!(up.op >> 4, 2) || (up.op & 0xFC == 0x14 && up.op & 3 == 3);
    let mut info = StepInfo {
        up,
        nontrivial: changed || branch || matches!(out, Outcome::Stopped | Outcome::ErrorOp0),
        io_access: false,
        data_dependent: matches!(up.op >> 4, 2 | 0xB | 0xC),
        edges: None,
    };
    let _ = pc0;
    match out {
        Outcome::Hang => return (StepEnd::End("undefined-first-byte"), info),
        Outcome::Undefined => return (StepEnd::End("undefined-second-byte"), info),
        _ => {}
    }
    // run the machine
    let edges = if assembly {
        // The Assembly-mode step loops inside the library until a boundary is reached; probe on a
        // clone with bounded raw edges first so that a non-terminating instruction is reported
        // instead of hanging the harness.
        let mut probe = m.clone();
        if run_to_boundary(probe.raw_mut(), 4000).is_none() {
            return (
                StepEnd::Mismatch(format!("nocomplete:{}", group), format!("{} ({:02X} {:02X}) did not reach an instruction boundary within 4000 edges", group, up.op, up.op2)),
                info,
            );
        }
        step_mode_step(m, true);
        None
    } else {
        match run_to_boundary(m.raw_mut(), 4000) {
            Some(n) => Some(n),
            None => {
                return (
                    StepEnd::Mismatch(format!("nocomplete:{}", group), format!("{} ({:02X} {:02X}) did not reach an instruction boundary within 4000 edges", group, up.op, up.op2)),
                    info,
                )
            }
        }
    };
    info.edges = edges;
    let st = m.state();
    match (out, st) {
        (Outcome::Stopped, State::Stopped) | (Outcome::ErrorOp0, State::ErrorStopped) => {
            if which == Which::Semantics {
                let d = diff_state(m, r);
                if !d.is_empty() {
                    return (StepEnd::Mismatch(format!("sem:halt:{}", group), format!("state at halt differs: {:?}", d)), info);
                }
            }
            if out == Outcome::Stopped {
                return (StepEnd::Stopped, info);
            }
            (StepEnd::End("halt-opcode"), info)
        }
        (Outcome::Stopped, _) | (Outcome::ErrorOp0, _) => {
            if which == Which::Semantics {
                (StepEnd::Mismatch(format!("sem:haltkind:{}", group), format!("model {} but machine {:?}", outcome_name(out), st)), info)
            } else {
                (StepEnd::End("halt-opcode"), info)
            }
        }
        (Outcome::Done, State::ErrorStopped) => {
            if sp_invalid {
                (StepEnd::End("sp-supervision"), info)
            } else if which == Which::Semantics {
                (StepEnd::Mismatch(format!("sem:errstop:{}", group), format!("{} ({:02X} {:02X}): machine error-stopped although model SP={:02X} is valid", group, up.op, up.op2, r.sp)), info)
            } else {
                (StepEnd::End("errstop"), info)
            }
        }
        (Outcome::Done, State::Stopped) => {
            if which == Which::Semantics {
                (StepEnd::Mismatch(format!("sem:stopped:{}", group), format!("{}: machine stopped, model completed", group)), info)
            } else {
                (StepEnd::End("errstop"), info)
            }
        }
        (Outcome::Done, State::Running) => {
            if sp_invalid {
                if which == Which::Semantics {
                    return (StepEnd::Mismatch(format!("sem:nosupervision:{}", group), format!("{}: model SP={:02X} invalid but machine still running", group, r.sp)), info);
                } else {
                    return (StepEnd::End("errstop"), info);
                }
            }
            let d = diff_state(m, r);
            if which == Which::Semantics {
                if !d.is_empty() {
                    return (
                        StepEnd::Mismatch(
                            format!("sem:{}", group),
                            format!(
                                "{} ({:02X} {:02X}) from R={:02X?} FR={:02X} SP={:02X}: {:?}",
                                group, up.op, up.op2, before.r, before.fr, before.sp, d
                            ),
                        ),
                        info,
                    );
                }
            } else {
                // the documented count is a function of the state *before* the instruction (form, mode,
                // address classes, flags for JR, operands for MUL/DIV): it is judged first, whatever the
                // instruction's result turned out to be
                if let Some(n) = edges {
                    let words = steps(up.op, up.op2, up.rd, up.rs) + entry_words;
                    let exp = words + r.ram_accesses;
                    // steps touching I/O addresses: total bus accesses minus RAM accesses is not tracked by
                    // the model; classify by operand address instead
                    if n as u32 != exp {
                        return (
                            StepEnd::Mismatch(
                                format!("cyc:{}", group),
                                format!(
                                    "{} ({:02X} {:02X}) Rd={:02X} Rs={:02X}: {} edges, documented {} words + {} RAM waits = {}",
                                    group, up.op, up.op2, up.rd, up.rs, n, words, r.ram_accesses, exp
                                ),
                            ),
                            info,
                        );
                    }
                }
                if !d.is_empty() {
                    // C15 does not judge semantics; lose sync -> end the sequence
                    return (StepEnd::End("semantic-divergence(C01's subject)"), info);
                }
            }
            (StepEnd::Continue, info)
        }
        (Outcome::Hang, _) | (Outcome::Undefined, _) => unreachable!(),
    }
}

// -------------------------------------------------------------------------------------
// (a) single instructions

#[derive(Clone, Debug, Serialize, Deserialize)]
pub struct SingleCase {
    pub op: u8,
    pub op2: u8,
    /// R0,R1,R2,PC,FR,SP,R6,R7
    pub regs: [u8; 8],
    pub ram_seed: u64,
    pub inp: [u8; 4],
    pub extra: [u8; 3],
    pub assembly: bool,
    /// key interrupt pending (enable bit set, key pressed) when the instruction starts
    #[serde(default)]
    pub irq: bool,
}

fn first_byte() -> impl Strategy<Value = u8> {
    prop_oneof![
        10 => (2u8..=0xFF).prop_filter("defined", |b| defined_first(*b)),
        10 => 0xF0u8..=0xFF,
        1 => 0u8..2,
    ]
}
fn second_byte() -> impl Strategy<Value = u8> {
    prop_oneof![0x10u8..=0x3F, 0x40u8..=0x47, 0x50u8..=0x6F]
}
fn reg_value() -> impl Strategy<Value = u8> {
    prop_oneof![2 => any::<u8>(), 1 => prop::sample::select(BOUNDARY.to_vec())]
}
fn pc_value() -> impl Strategy<Value = u8> {
    prop_oneof![8 => 0u8..=0xEF, 3 => 0xFCu8..=0xFF, 2 => 0xE8u8..=0xEF, 1 => 0xF0u8..=0xFB]
}

pub fn single_strategy() -> impl Strategy<Value = SingleCase> {
    (
        first_byte(),
        second_byte(),
        [reg_value(), reg_value(), reg_value()],
        pc_value(),
        any::<u8>(),
        prop_oneof![4 => 0u8..=0xEF, 1 => prop::sample::select(vec![0u8, 1, 2, 0xEE, 0xEF])],
        [any::<u8>(), any::<u8>()],
        any::<u64>(),
        [byte_biased(), byte_biased(), byte_biased(), byte_biased()],
        [byte_biased(), byte_biased(), byte_biased()],
        (any::<bool>(), prop_oneof![3 => Just(false), 1 => Just(true)]),
    )
        .prop_map(|(op, op2, r, pc, fr, sp, scratch, ram_seed, inp, extra, (assembly, irq))| SingleCase {
            op,
            op2,
            regs: [r[0], r[1], r[2], pc, fr, sp, scratch[0], scratch[1]],
            ram_seed,
            inp,
            extra,
            assembly,
            irq,
        })
}

fn place(ram: &mut [u8; 0xF0], inp: &mut [u8; 4], a: u8, v: u8) {
    if a <= 0xEF {
        ram[a as usize] = v;
    } else if a >= 0xFC {
        inp[(a - 0xFC) as usize] = v;
    }
}

pub fn build_single(c: &SingleCase) -> ArchState {
    let mut ram = ram_from_seed(c.ram_seed);
    let mut inp = c.inp;
    let pc = c.regs[3];
    let d = c.op & 3;
    let s = (c.op >> 2) & 3;
    // pointer cells first (code bytes win on collision)
    if c.op >> 4 == 0xF || c.op >> 4 == 5 {
        let p = c.regs[d as usize];
        place(&mut ram, &mut inp, p, c.extra[2]);
    }
    let mut a = pc;
    place(&mut ram, &mut inp, a, c.op);
    a = a.wrapping_add(1);
    if c.op >> 4 == 0xF {
        if d == 3 && s >= 2 {
            place(&mut ram, &mut inp, a, c.extra[0]);
            a = a.wrapping_add(1);
        }
        place(&mut ram, &mut inp, a, c.op2);
        a = a.wrapping_add(1);
        if c.op2 & 3 == 3 && (c.op2 >> 2) & 3 >= 2 && c.op2 >> 4 != 4 {
            place(&mut ram, &mut inp, a, c.extra[1]);
        }
    } else if c.op >> 4 == 2 || (c.op >> 4 == 5 && d == 3 && s >= 2) {
        place(&mut ram, &mut inp, a, c.extra[0]);
    }
    ArchState { regs: c.regs, ram, inp }
}

/// returns (verdict, info about the executed instruction if any)
pub fn check_single(c: &SingleCase, which: Which) -> (Verdict, Option<StepInfo>) {
    let st = build_single(c);
    let mut m = match machine_at_boundary(&st) {
        Some(m) => m,
        None => return (Verdict::Fail("setup:noboundary".into(), "machine did not reach its first boundary".into()), None),
    };
    // (the opcode at PC is already latched at the boundary: a key press must not change what is read
    // there, so no key press when the opcode itself comes from the status register 0xF9)
    let irq = c.irq && c.regs[3] != 0xF9;
    if irq {
        m.raw_mut().bus_mut().write(0xF9, 0x01);
        m.trigger_key_interrupt();
    }
    let mut r = model_of(&st, &m);
    // one case in eight: the continue key is pressed on the running machine at one of the first
    // edges of the instruction (no-op by its documentation: same result, same number of edges)
    if !c.assembly && c.ram_seed >> 61 == 5 {
        SPURIOUS_CONTINUE.with(|s| s.set(Some((c.ram_seed >> 56 & 15) as usize)));
    }
    let (end, info) = lockstep_irq(&mut m, &mut r, c.assembly, which, irq);
    SPURIOUS_CONTINUE.with(|s| s.set(None));
    match end {
        StepEnd::Mismatch(sig, d) => (Verdict::Fail(sig, d), Some(info)),
        _ => (Verdict::Pass, Some(info)),
    }
}

// -------------------------------------------------------------------------------------
// (c) sequences

#[derive(Clone, Debug, Serialize, Deserialize)]
pub struct SeqCase {
    pub prog: Vec<Tm>,
    pub ram_seed: u64,
    pub inp: [u8; 4],
    /// bit i: step i is taken in Assembly step mode
    pub modes: u64,
    pub limit: u16,
}

pub fn seq_strategy(max_len: usize, limit: u16) -> impl Strategy<Value = SeqCase> {
    (
        (prop_oneof![4 => (0x40u8..=0xEF).prop_map(|v| Some(Tm::LdSp(v))), 1 => Just(None)], prop::collection::vec(tm_any(), 1..max_len)).prop_map(
            |(first, mut v)| {
                if let Some(f) = first {
                    v.insert(0, f);
                }
                v
            },
        ),
        prop_oneof![1 => Just(0u64), 3 => any::<u64>()],
        [byte_biased(), byte_biased(), byte_biased(), byte_biased()],
        prop_oneof![1 => Just(0u64), 1 => Just(u64::MAX), 2 => any::<u64>()],
    )
        .prop_map(move |(prog, ram_seed, inp, modes)| SeqCase { prog, ram_seed, inp, modes, limit })
}

pub struct SeqStats {
    pub executed: u64,
    pub end: &'static str,
    pub nontrivial: Vec<u64>,
    pub groups: Vec<String>,
    pub io: u64,
}

pub fn check_seq(c: &SeqCase, which: Which) -> (Verdict, SeqStats) {
    let mut ram = ram_from_seed(c.ram_seed);
    let code = assemble(&c.prog);
    for (i, b) in code.iter().enumerate().take(0xF0) {
        ram[i] = *b;
    }
    let st = ArchState { regs: [0; 8], ram, inp: c.inp };
    let mut stats = SeqStats { executed: 0, end: "limit", nontrivial: vec![], groups: vec![], io: 0 };
    let mut m = match machine_at_boundary(&st) {
        Some(m) => m,
        None => return (Verdict::Fail("setup:noboundary".into(), "no first boundary".into()), stats),
    };
    let mut r = model_of(&st, &m);
    let mut continued = 0;
    for i in 0..c.limit as u64 {
        // cycles are only countable with raw edges; C15 takes every step raw except where the mode
        // pattern asks for assembly (then the count is skipped but the state still carries over)
        let assembly = (c.modes >> (i % 64)) & 1 == 1;
        let (end, info) = lockstep(&mut m, &mut r, assembly, which);
        match end {
            StepEnd::Continue => {
                stats.executed += 1;
                if info.nontrivial {
                    stats.nontrivial.push(hash_of(&(info.up.op, info.up.op2, info.up.rd, info.up.rs, r.fr)));
                }
                if stats.groups.len() < 400 {
                    stats.groups.push(group_name(&info.up));
                }
            }
            StepEnd::End(why) => {
                stats.end = why;
                break;
            }
            StepEnd::Stopped => {
                // continue key: the machine finishes the (empty) routine of STOP and fetches the next
                // instruction; nothing else may change
                stats.executed += 1;
                continued += 1;
                if continued > 4 {
                    stats.end = "halt-opcode";
                    break;
                }
                m.trigger_key_continue();
                let mut g = 0;
                while !m.is_instruction_done() && m.state() == State::Running && g < 64 {
                    m.raw_mut().trigger_clock_edge();
                    g += 1;
                }
                if m.state() != State::Running || !m.is_instruction_done() {
                    if which == Which::Semantics {
                        return (Verdict::Fail("sem:continue-after-stop".into(), format!("after STOP + continue the machine is {:?} / not at an instruction boundary", m.state())), stats);
                    }
                    stats.end = "halt-opcode";
                    break;
                }
                let d = diff_state(&m, &r);
                if !d.is_empty() {
                    if which == Which::Semantics {
                        return (Verdict::Fail("sem:continue-after-stop".into(), format!("state after STOP + continue differs from the state at the stop: {:?}", d)), stats);
                    }
                    stats.end = "halt-opcode";
                    break;
                }
            }
            StepEnd::Mismatch(sig, d) => {
                return (Verdict::Fail(sig, format!("after {} instructions in lock-step: {}", stats.executed, d)), stats);
            }
        }
    }
    (Verdict::Pass, stats)
}

// -------------------------------------------------------------------------------------
// (b) exhaustive sweeps

#[derive(Clone, Debug, Serialize, Deserialize)]
pub struct SweepPoint {
    pub op: u8,
    pub pc: u8,
    pub a: u8,
    pub b: u8,
    pub fr: u8,
}

fn sweep_state(p: &SweepPoint) -> ArchState {
    let d = (p.op & 3) as usize;
    let s = ((p.op >> 2) & 3) as usize;
    let mut regs = [0x11u8, 0x22, 0x33, p.pc, p.fr, 0x80, 0x5A, 0xA5];
    if s != 3 {
        regs[s] = p.b;
    }
    if d != 3 {
        regs[d] = p.a;
    }
    let mut ram = [0x02u8; 0xF0];
    let mut inp = [0x02u8; 4];
    place(&mut ram, &mut inp, p.pc, p.op);
    ArchState { regs, ram, inp }
}

pub fn check_sweep_point(p: &SweepPoint, which: Which) -> Verdict {
    let st = sweep_state(p);
    let mut m = match machine_at_boundary(&st) {
        Some(m) => m,
        None => return Verdict::Fail("setup:noboundary".into(), "no first boundary".into()),
    };
    let mut r = model_of(&st, &m);
    match lockstep(&mut m, &mut r, false, which).0 {
        StepEnd::Mismatch(sig, d) => Verdict::Fail(sig, d),
        _ => Verdict::Pass,
    }
}

/// PC positions at which an opcode byte can be placed
fn pc_positions() -> Vec<u8> {
    (0u8..=0xEF).chain(0xFCu8..=0xFF).collect()
}

struct SweepOut {
    evals: u64,
    fail: Option<(SweepPoint, String, String)>,
}

fn sweep_alu(op_base: u8, d: u8, s: u8, which: Which) -> SweepOut {
    let op = op_base + (s << 2) + d;
    let mut out = SweepOut { evals: 0, fail: None };
    let frs = [0x00u8, 0x01, 0xA8, 0x57];
    let mut run = |p: SweepPoint, out: &mut SweepOut| {
        out.evals += 1;
        if out.fail.is_none() {
            let v = catch(|| check_sweep_point(&p, which)).unwrap_or_else(|e| Verdict::Fail(panic_signature(&e), format!("panic: {}", e)));
            if let Verdict::Fail(sig, det) = v {
                out.fail = Some((p, sig, det));
            }
        }
    };
    if d != 3 && s != 3 {
        for a in 0..=255u8 {
            for b in 0..=255u8 {
                if d == s && a != b {
                    continue;
                }
                for (i, fr) in frs.iter().enumerate() {
                    // carry-in 0 and 1, each with two patterns of the other FR bits (alternating to bound cost)
                    if i >= 2 && (a ^ b) & 1 == 0 {
                        continue;
                    }
                    run(SweepPoint { op, pc: 0x20, a, b, fr: *fr }, &mut out);
                }
            }
        }
    } else {
        // one operand is the PC: sweep every position of the opcode, the other operand over all values
        for pc in pc_positions() {
            for v in 0..=255u8 {
                if d == 3 && s == 3 && v != 0 {
                    continue;
                }
                for fr in [0x00u8, 0x01] {
                    run(SweepPoint { op, pc, a: v, b: v, fr }, &mut out);
                }
            }
        }
    }
    out
}

fn sweep_unary(op_base: u8, d: u8, which: Which) -> SweepOut {
    let op = op_base + d;
    let mut out = SweepOut { evals: 0, fail: None };
    for v in 0..=255u8 {
        for lowfr in 0..16u8 {
            let fr = lowfr | if v & 1 == 1 { 0xA0 } else { 0x50 };
            let p = if d == 3 {
                // the operand is the PC itself: v is the position
                if !(v <= 0xEF || v >= 0xFC) {
                    continue;
                }
                SweepPoint { op, pc: v, a: 0, b: 0, fr }
            } else {
                SweepPoint { op, pc: 0x20, a: v, b: v, fr }
            };
            out.evals += 1;
            if out.fail.is_none() {
                let v = catch(|| check_sweep_point(&p, which)).unwrap_or_else(|e| Verdict::Fail(panic_signature(&e), format!("panic: {}", e)));
                if let Verdict::Fail(sig, det) = v {
                    out.fail = Some((p, sig, det));
                }
            }
        }
    }
    out
}

const ALU_BASES: [u8; 8] = [0x60, 0x70, 0x80, 0x90, 0xA0, 0xB0, 0xC0, 0xD0];
const UNARY_BASES: [u8; 9] = [0x04, 0x30, 0x34, 0x38, 0x3C, 0x40, 0x44, 0x48, 0x50];

// -------------------------------------------------------------------------------------

pub fn run(ctx: &Ctx, which: Which) -> Evidence {
    let kind = if which == Which::Semantics { "C01" } else { "C15" };
    let rule = if which == Which::Semantics {
        "cases: (a) proptest-generated single instructions from arbitrary register/RAM/input states, (b) exhaustive operand sweeps of the reg-reg ALU group and the unary group, (c) proptest-generated programs executed in lock-step with the instruction-level reference model without re-synchronisation; non-trivial = the instruction changes a compared location other than PC, takes a branch or halts; distinct by hash of (opcode bytes, operand registers, flags)"
    } else {
        "same generators as C01; oracle = documented control-word count of the instruction form + one wait per access to an address <= 0xEF, compared with the number of clock edges between two boundaries; non-trivial = instruction with an operand in the I/O page, code executing from the I/O page, or a data-dependent count (JR/MUL/DIV); distinct by hash of (opcode bytes, operand registers)"
    };
    let mut ev = Evidence::new("exploration", rule);
    ev.assumptions.push("reference model harness/src/isa.rs (DESIGN.md Appendix A) is the documented instruction set".into());
    ev.assumptions.push("limits are set to stack size 0 / program size 255 so that supervision (C05) interferes only through SP >= 0xF0".into());

    if let Some(path) = &ctx.replay {
        let doc: serde_json::Value = serde_json::from_str(&std::fs::read_to_string(path).expect("replay file")).expect("json");
        ev.evaluations = 1;
        let k = doc["kind"].as_str().unwrap_or("");
        let v = match k {
            "single" => check_single(&serde_json::from_value(doc["case"].clone()).expect("case"), which).0,
            "seq" => check_seq(&serde_json::from_value(doc["case"].clone()).expect("case"), which).0,
            "sweep" => check_sweep_point(&serde_json::from_value(doc["case"].clone()).expect("case"), which),
            _ => panic!("unknown replay kind {}", k),
        };
        if let Verdict::Fail(sig, d) = v {
            ev.violation(k, &sig, d, doc["case"].clone());
        }
        return ev;
    }
    let known: Vec<String> = load_known(kind).into_iter().map(|k| k.signature).collect();

    // ---- (b) sweeps
    let mut jobs: Vec<(u8, u8, u8)> = vec![]; // (base, d, s) ; s = 255 for unary
    let pairs: Vec<(u8, u8)> = if ctx.tier == Tier::Quick {
        vec![(0, 1), (1, 1)]
    } else {
        (0..4).flat_map(|d| (0..4).map(move |s| (d, s))).collect()
    };
    for b in ALU_BASES {
        for (d, s) in &pairs {
            jobs.push((b, *d, *s));
        }
    }
    if ctx.tier == Tier::Quick {
        // one PC-involving pair per run, rotated by seed, so the PC-operand path is exercised in quick too
        let b = ALU_BASES[(ctx.seed % 8) as usize];
        jobs.push((b, 3, 0));
        jobs.push((b, 0, 3));
    }
    for b in UNARY_BASES {
        for d in 0..4 {
            jobs.push((b, d, 255));
        }
    }
    let sweep_results = par_chunks(ctx.threads, jobs.len(), |i| {
        let (b, d, s) = jobs[i];
        if s == 255 {
            sweep_unary(b, d, which)
        } else {
            sweep_alu(b, d, s, which)
        }
    });
    let mut sweep_evals = 0u64;
    for (i, o) in sweep_results.into_iter().enumerate() {
        sweep_evals += o.evals;
        if let Some((p, sig, det)) = o.fail {
            ev.violation("sweep", &sig, det, serde_json::to_value(&p).unwrap());
        }
        if i < 2 {
            ev.sample(json!({"part": "b-sweep", "job": format!("base {:02X} d{} s{}", jobs[i].0, jobs[i].1, jobs[i].2), "points": o.evals}));
        }
    }
    ev.class("b:sweep-points", sweep_evals);
    ev.evaluations += sweep_evals;
    ev.extra.insert("sweep_jobs".into(), json!(jobs.len()));
    ev.extra.insert("sweep_complete_for_all_16_register_pairs".into(), json!(ctx.tier == Tier::Thorough));

    // ---- (a) single instructions
    let n_single: u64 = ctx.tier.pick(1_500_000, 20_000_000);
    let parts = 32;
    let collected = std::sync::Mutex::new(Evidence::new("", ""));
    let res = par_search(ctx.threads, parts, ctx.seed, n_single, single_strategy, &known, |c, first, _| {
        let (v, info) = check_single(c, which);
        if first {
            if let Some(info) = info {
                let mut e = collected.lock().unwrap();
                e.evaluations += 1;
                let g = group_name(&info.up);
                let nt = if which == Which::Semantics {
                    info.nontrivial
                } else {
                    info.data_dependent || c.regs[3] >= 0xEC || c.regs[..3].iter().any(|r| *r >= 0xF0)
                };
                if nt {
                    e.nontrivial(&(info.up.op, info.up.op2, c.regs[0], c.regs[1], c.regs[2], c.regs[3], c.regs[4]));
                }
                *e.classes.entry(format!("a:{}", g.split(':').next().unwrap())).or_insert(0) += 1;
                if e.samples.len() < 6 {
                    let s = json!({"part": "a-single", "instr": g, "bytes": format!("{:02X} {:02X}", info.up.op, info.up.op2), "regs": hex(&c.regs), "edges": info.edges});
                    e.samples.push(s);
                }
            }
        }
        v
    });
    for r in res {
        if let Some((c, sig, det)) = r.failure {
            ev.violation("single", &sig, det, serde_json::to_value(&c).unwrap());
        }
        for (c, sig, det) in r.tolerated {
            ev.violation("single", &sig, det, serde_json::to_value(&c).unwrap());
        }
    }
    ev.merge(collected.into_inner().unwrap());

    // ---- (c) sequences
    let n_seq: u64 = ctx.tier.pick(12_000, 300_000);
    let collected = std::sync::Mutex::new(Evidence::new("", ""));
    let res = par_search(ctx.threads, parts, ctx.seed ^ 0xC0FFEE, n_seq, || seq_strategy(60, 250), &known, |c, first, _| {
        let (v, stats) = check_seq(c, which);
        if first {
            let mut e = collected.lock().unwrap();
            e.evaluations += 1;
            *e.classes.entry(format!("c:end:{}", stats.end)).or_insert(0) += 1;
            *e.classes.entry("c:instructions-in-lockstep".into()).or_insert(0) += stats.executed;
            for h in &stats.nontrivial {
                e.nontrivial.insert(*h);
            }
            if e.samples.len() < 4 && stats.executed > 20 {
                let s = json!({"part": "c-sequence", "program_bytes": hex(&assemble(&c.prog)), "executed": stats.executed, "end": stats.end, "first_instructions": stats.groups.iter().take(12).collect::<Vec<_>>()});
                e.samples.push(s);
            }
        }
        v
    });
    for r in res {
        if let Some((c, sig, det)) = r.failure {
            ev.violation("seq", &sig, det, serde_json::to_value(&c).unwrap());
        }
        for (c, sig, det) in r.tolerated {
            ev.violation("seq", &sig, det, serde_json::to_value(&c).unwrap());
        }
    }
    ev.merge(collected.into_inner().unwrap());
    ev
}
