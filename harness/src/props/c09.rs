//! C09 — micro-sequencer control flow: graph extraction through the real `trigger_clock_edge`
//! with the forcing hook, invariants over the graph, concrete MUL/DIV termination sweep.
use crate::engine::*;
use crate::mach::*;
use emulator_2a_lib::machine::*;
use emulator_2a_lib::parser::{Programsize, Stacksize};
use serde_json::json;
use std::collections::{BTreeMap, BTreeSet, VecDeque};

/// the six physically possible (carry, zero/positive/negative) ALU latch values x carry
fn alu(co: bool, z: u8) -> AluOutput {
    let b = [0u8, 1, 0x80][z as usize];
    AluOutput::from_input(&AluInput::new(0, b, false), if co { &AluSelect::SETC } else { &AluSelect::B })
}
fn word(addr: usize) -> Word {
    MicroprogramRam::CONTENT[addr]
}
fn is_fetch(addr: usize) -> bool {
    word(addr).contains(Word::MAC3)
}
/// words after which the instruction register is loaded from the bus
fn loads_ir(addr: usize) -> bool {
    let w = word(addr);
    w.contains(Word::MAC0) && w.contains(Word::MAC2) && !w.contains(Word::MAC1)
}

type Node = (usize, u8);
type Succ = BTreeSet<(usize, u8, bool)>;

fn base_machine() -> RawMachine {
    let mut base = RawMachine::new();
    base.set_stacksize(Stacksize::_0);
    base.set_programsize(Programsize::Size(255));
    base
}

/// Bus histories the control flow must not depend on: the interrupt status register carries key
/// flags from an earlier key press (with the key interrupt disabled, resp. enabled in the mask).
fn history_machines(base: &RawMachine) -> Vec<RawMachine> {
    let mut a = base.clone();
    a.trigger_key_edge_interrupt();
    let mut b = base.clone();
    b.bus_mut().write(0xF9, 0x01);
    b.trigger_key_edge_interrupt();
    let mut c = b.clone();
    c.bus_mut().write(0xF9, 0x00);
    vec![a, b, c]
}

/// all successors of the control state (addr, ir) over every input combination
fn successors(base: &RawMachine, addr: usize, ir: u8) -> Result<(Succ, u64), String> {
    let mut out = BTreeSet::new();
    let mut evals = 0u64;
    if loads_ir(addr) {
        // the latch of the fetched byte again under the other bus histories
        for h in history_machines(base) {
            let (o, e) = successors_from(&h, addr, ir)?;
            out.extend(o);
            evals += e;
        }
    }
    let (o, e) = successors_from(base, addr, ir)?;
    out.extend(o);
    Ok((out, evals + e))
}

fn successors_from(base: &RawMachine, addr: usize, ir: u8) -> Result<(Succ, u64), String> {
    let mut out = BTreeSet::new();
    let mut evals = 0u64;
    let bytes: Vec<u8> = if loads_ir(addr) { (0..=255).collect() } else { vec![0x55] };
    for &b in &bytes {
        for f in 0..16u8 {
            for co in [false, true] {
                for z in 0..3u8 {
                    for pe in [false, true] {
                        let mut m = base.clone();
                        m.verif_force_control(addr, ir, f, alu(co, z), pe, b);
                        catch(|| m.trigger_clock_edge()).map_err(|p| format!("panic at addr {:03X} ir {:02X} byte {:02X}: {}", addr, ir, b, p))?;
                        evals += 1;
                        let s = m.verif_snapshot();
                        // "stays within the routine of the fetched opcode": the byte loaded at a fetch governs
                        // the routine, also when it halts the machine (0x00 / 0x01)
                        if loads_ir(addr) && s.instruction_register != b {
                            return Err(format!("ROUTINE fetch word {:03X} loaded byte {:02X} but the instruction register holds {:02X} (stale IR {:02X}): the sequencer leaves the fetch into the routine of another opcode", addr, b, s.instruction_register, ir));
                        }
                        if (s.micro_address >> 5) as u8 != s.instruction_register >> 4 {
                            return Err(format!("ROUTINE from {:03X}/{:02X} (byte {:02X}): successor address {:03X} is outside the routine of IR {:02X}", addr, ir, b, s.micro_address, s.instruction_register));
                        }
                        out.insert((s.micro_address, s.instruction_register, m.state() != State::Running));
                    }
                }
            }
        }
    }
    Ok((out, evals))
}

pub fn run(ctx: &Ctx) -> Evidence {
    let mut ev = Evidence::new(
        "exploration",
        "breadth-first construction of the control graph over (micro-address, IR) from reset through the real clock-edge function with forced inputs (16 flag patterns x 6 ALU latch outcomes x pending interrupt, all 256 bytes on IR-loading words), invariants checked on the graph; plus MUL/DIV executed concretely for all operand pairs; non-trivial = control states other than fetch words, distinct by (address, IR)",
    );
    ev.assumptions.push("forcing hook `verif_force_control` sets exactly the inputs of the next-address logic; the level interrupt input is constantly absent in this code base (Bus::get_level_interrupt returns None)".into());
    ev.assumptions.push("defined opcode sets (first bytes except 0x4C-0x4F, 0xE0-0xEF; second bytes 0x10-0x3F, 0x40-0x47, 0x50-0x6F) are written in the harness from the property statement".into());
    if ctx.replay.is_some() {
        // the graph is rebuilt from scratch anyway; a replay is a normal run
    }
    let base = base_machine();

    // ---- BFS from reset, parallel by frontier
    let mut seen: BTreeMap<Node, Succ> = BTreeMap::new();
    let mut frontier: Vec<Node> = vec![(0usize, 0x02u8)];
    let mut evals = 0u64;
    while !frontier.is_empty() {
        let res = par_chunks(ctx.threads, frontier.len(), |i| successors(&base, frontier[i].0, frontier[i].1));
        let mut next: BTreeSet<Node> = BTreeSet::new();
        for (n, r) in frontier.iter().zip(res.into_iter()) {
            match r {
                Ok((s, e)) => {
                    evals += e;
                    for &(a2, i2, halted) in &s {
                        if !halted && !seen.contains_key(&(a2, i2)) {
                            next.insert((a2, i2));
                        }
                    }
                    seen.insert(*n, s);
                }
                Err(p) => {
                    let sig = if p.starts_with("ROUTINE") { "c09:leaves-routine-of-fetched-opcode" } else { "c09:panic" };
                    ev.violation("graph", sig, p, json!({"addr": n.0, "ir": n.1}));
                    seen.insert(*n, BTreeSet::new());
                }
            }
        }
        frontier = next.into_iter().filter(|n| !seen.contains_key(n)).collect();
    }
    ev.evaluations += evals;
    let transitions: usize = seen.values().map(|s| s.len()).sum();
    ev.extra.insert("states".into(), json!(seen.len()));
    ev.extra.insert("transitions".into(), json!(transitions));
    for n in seen.keys() {
        if !is_fetch(n.0) {
            ev.nontrivial(n);
        }
    }

    // (ii) address high bits == IR high nibble
    for &(a, i) in seen.keys() {
        if (a >> 5) as u8 != i >> 4 {
            ev.violation("graph", "c09:routine-mismatch", format!("reachable control state addr {:03X} with IR {:02X}: address bits 8-5 differ from IR bits 7-4", a, i), json!({"addr": a, "ir": i}));
        }
    }

    // entry states per first byte: successors of the fetch words that load that byte
    let fetch_nodes: Vec<Node> = seen.keys().filter(|n| is_fetch(n.0)).cloned().collect();
    let mut never = vec![];
    let mut maxdepth = 0usize;
    let mut cyc: BTreeSet<(usize, u8)> = BTreeSet::new();
    let mut zero_from_defined: BTreeSet<(u8, usize)> = BTreeSet::new();
    let mut incomplete_two_byte: BTreeSet<(u8, u8)> = BTreeSet::new();
    let mut per_byte_paths = 0u64;
    for b in 2..=255u8 {
        let mut entries: BTreeSet<Node> = BTreeSet::new();
        for f in &fetch_nodes {
            for &(a, i, h) in &seen[f] {
                if i == b && !h {
                    entries.insert((a, i));
                }
            }
        }
        if entries.is_empty() {
            ev.violation("graph", "c09:no-entry", format!("no control state is entered when byte {:02X} is fetched", b), json!({"byte": b}));
            continue;
        }
        let mut reaches_fetch = false;
        let mut all_paths_complete = true;
        let mut stack: Vec<(Node, usize, Vec<Node>, Option<u8>)> = entries.iter().map(|e| (*e, 1usize, vec![*e], None)).collect();
        let mut local_seen = BTreeSet::new();
        while let Some((n, d, path, second)) = stack.pop() {
            per_byte_paths += 1;
            if is_fetch(n.0) {
                reaches_fetch = true;
                maxdepth = maxdepth.max(d);
                continue;
            }
            if word(n.0).bits() == 0 {
                if defined_first(b) {
                    zero_from_defined.insert((b, n.0));
                }
                all_paths_complete = false;
                continue;
            }
            let succ = match seen.get(&n) {
                Some(s) => s,
                None => continue,
            };
            let second_fetch = loads_ir(n.0) && !is_fetch(n.0);
            let mut any = false;
            for &(a2, i2, h) in succ {
                if h {
                    continue;
                }
                // for two-byte instructions only defined second bytes are followed
                if second_fetch && !defined_second(i2) {
                    continue;
                }
                any = true;
                let nn = (a2, i2);
                if path.contains(&nn) {
                    cyc.insert((n.0, n.1));
                    continue;
                }
                if d > 64 {
                    all_paths_complete = false;
                    continue;
                }
                let sec = if second_fetch { Some(i2) } else { second };
                if local_seen.insert((nn, d)) {
                    let mut p = path.clone();
                    p.push(nn);
                    stack.push((nn, d + 1, p, sec));
                }
            }
            if !any && !succ.iter().any(|x| x.2) {
                all_paths_complete = false;
            }
            let _ = second;
        }
        if !reaches_fetch {
            never.push(b);
        }
        if defined_first(b) && !all_paths_complete {
            incomplete_two_byte.insert((b, 0));
        }
    }
    ev.extra.insert("paths_walked".into(), json!(per_byte_paths));
    ev.extra.insert("longest_loop_free_path_words".into(), json!(maxdepth));
    ev.extra.insert("first_bytes_never_returning_to_fetch".into(), json!(never.iter().map(|b| format!("{:02X}", b)).collect::<Vec<_>>()));
    ev.extra.insert("cycle_closing_states".into(), json!(cyc.iter().map(|(a, i)| format!("{:03X}/{:02X}", a, i)).collect::<Vec<_>>()));

    // (iv) the bytes that never complete are exactly the undefined ones
    let expected_never: Vec<u8> = (2..=255u8).filter(|b| !defined_first(*b)).collect();
    if never != expected_never {
        let extra: Vec<String> = never.iter().filter(|b| !expected_never.contains(b)).map(|b| format!("{:02X}", b)).collect();
        let missing: Vec<String> = expected_never.iter().filter(|b| !never.contains(b)).map(|b| format!("{:02X}", b)).collect();
        ev.violation(
            "graph",
            "c09:never-completing-set",
            format!("first bytes that can never return to a fetch differ from the undefined set: defined but never completing {:?}; undefined but completing {:?}", extra, missing),
            json!({"never": never, "expected": expected_never}),
        );
    }
    // (i) only programmed words from defined opcodes
    if !zero_from_defined.is_empty() {
        ev.violation(
            "graph",
            "c09:unprogrammed-word",
            format!("unprogrammed control words reachable from defined opcodes (first byte, address): {:X?}", zero_from_defined.iter().take(10).collect::<Vec<_>>()),
            json!({"list": zero_from_defined.iter().map(|(b, a)| format!("{:02X}@{:03X}", b, a)).collect::<Vec<_>>()}),
        );
    }
    // (iii) cycles only inside MUL / DIV routines (IR high nibble B / C) for defined opcodes
    let bad_cycles: Vec<&(usize, u8)> = cyc.iter().filter(|(_, i)| defined_first(*i) && !matches!(i >> 4, 0xB | 0xC)).collect();
    if !bad_cycles.is_empty() {
        ev.violation(
            "graph",
            "c09:unexpected-loop",
            format!("control-flow cycles outside the MUL/DIV loops: {:X?}", bad_cycles.iter().take(10).collect::<Vec<_>>()),
            json!({"list": bad_cycles.iter().map(|(a, i)| format!("{:03X}/{:02X}", a, i)).collect::<Vec<_>>()}),
        );
    }
    // (iii) bounded length of loop-free paths
    if maxdepth > 32 {
        ev.violation("graph", "c09:path-too-long", format!("a loop-free path of {} control words exists between two fetches (bound 32)", maxdepth), json!({"maxdepth": maxdepth}));
    }
    // (v)/(iii) every path from a defined opcode (with defined second byte) ends in a fetch or a halt
    if !incomplete_two_byte.is_empty() {
        ev.violation(
            "graph",
            "c09:path-does-not-complete",
            format!("defined first bytes with a path that neither reaches a fetch nor halts: {:X?}", incomplete_two_byte.iter().map(|x| x.0).take(16).collect::<Vec<_>>()),
            json!({"bytes": incomplete_two_byte.iter().map(|x| x.0).collect::<Vec<_>>()}),
        );
    }
    for (n, s) in seen.iter().filter(|(n, _)| !is_fetch(n.0)).take(6) {
        ev.sample(json!({"state": format!("{:03X}/{:02X}", n.0, n.1), "successors": s.iter().take(6).map(|(a, i, h)| format!("{:03X}/{:02X}{}", a, i, if *h { " halt" } else { "" })).collect::<Vec<_>>()}));
    }

    // ---- thorough: full product sweep 512 x 256: no panic, successor routine consistent with successor IR
    if ctx.tier == Tier::Thorough {
        let res = par_chunks(ctx.threads, 512, |addr| {
            let mut e = 0u64;
            let mut bad: Option<String> = None;
            for ir in 0..=255u8 {
                match successors(&base, addr, ir) {
                    Ok((s, n)) => {
                        e += n;
                        for (a2, i2, _) in s {
                            if (a2 >> 5) as u8 != i2 >> 4 && bad.is_none() {
                                bad = Some(format!("from forced state {:03X}/{:02X}: successor {:03X} with IR {:02X}", addr, ir, a2, i2));
                            }
                        }
                    }
                    Err(p) => {
                        if bad.is_none() {
                            bad = Some(p)
                        }
                    }
                }
            }
            (e, bad)
        });
        let mut e2 = 0u64;
        for (e, bad) in res {
            e2 += e;
            if let Some(b) = bad {
                ev.violation("sweep", "c09:full-product", b, json!({}));
            }
        }
        ev.evaluations += e2;
        ev.class("full-product-edge-evaluations", e2);
    }

    // ---- concrete traces: every (micro-address, IR) visited by real programs must be a state of the
    // extracted graph (validates the forced exploration against unforced execution) and obey (ii)
    {
        use proptest::strategy::{Strategy, ValueTree};
        let n_prog: usize = ctx.tier.pick(16_000, 200_000);
        let res = par_chunks(ctx.threads, 16, |k| {
            let mut runner = runner(mix(ctx.seed ^ 0xC09 ^ ((k as u64) << 36)), (n_prog / 16) as u32);
            let strat = crate::props::cpu::seq_strategy(50, 0);
            let mut edges = 0u64;
            let mut outside: Option<String> = None;
            let mut broken: Option<String> = None;
            for _ in 0..n_prog / 16 {
                let c = match strat.new_tree(&mut runner) {
                    Ok(t) => t.current(),
                    Err(_) => continue,
                };
                let mut ram = ram_from_seed(c.ram_seed);
                let code = crate::progen_sem::assemble(&c.prog);
                for (i, b) in code.iter().enumerate().take(0xF0) {
                    ram[i] = *b;
                }
                let mut m = base_machine();
                m.bus_mut().memory_mut().copy_from_slice(&ram);
                m.bus_mut().input_fc(c.inp[0]);
                m.bus_mut().input_ff(c.inp[3]);
                if c.modes & 1 == 1 {
                    m.bus_mut().write(0xF9, 1);
                }
                for e in 0..1500 {
                    if m.state() != State::Running {
                        break;
                    }
                    if c.modes >> 1 & 1 == 1 && (e % 97 == 5 || (c.modes >> 3 & 1 == 1 && e % 7 == 2)) {
                        m.trigger_key_edge_interrupt();
                    }
                    // the continue key is documented as "Stopped -> Running" and nothing else: pressed at
                    // arbitrary edges of a running machine it must not disturb the sequencer
                    if c.modes >> 2 & 1 == 1 && (e as u64 + c.ram_seed) % 11 == 3 {
                        m.trigger_key_continue();
                    }
                    // "from reset": a CPU reset at an arbitrary edge (also inside an interrupt entry) must
                    // put the sequencer on a well-formed path again
                    if c.modes >> 3 & 1 == 1 && (e as u64 + (c.ram_seed >> 8)) % 41 == 17 {
                        m.cpu_reset();
                        m.bus_mut().write(0xF9, 1);
                        let s = m.verif_snapshot();
                        if broken.is_none() && (s.micro_address != 0 || s.instruction_register >> 4 != 0) {
                            broken = Some(format!("program {} at edge {}: after a CPU reset the sequencer sits at micro-address {:03X} with {:02X} in the instruction register (reset must start the fetch path of page 0)", hex(&code), e, s.micro_address, s.instruction_register));
                        }
                    }
                    m.trigger_clock_edge();
                    edges += 1;
                    let s = m.verif_snapshot();
                    // the statement's invariant on the real trace itself: inside the routine of the opcode in the
                    // instruction register
                    if m.state() == State::Running && broken.is_none() {
                        if (s.micro_address >> 5) as u8 != s.instruction_register >> 4 {
                            broken = Some(format!("program {} (key interrupts: {}, continue presses: {}) at edge {}: micro-address {:03X} is outside the routine of the instruction register {:02X}", hex(&code), c.modes >> 1 & 1, c.modes >> 2 & 1, e, s.micro_address, s.instruction_register));
                        }
                    }
                    if m.state() == State::Running && !seen.contains_key(&(s.micro_address, s.instruction_register)) && outside.is_none() {
                        outside = Some(format!("program {} reaches control state {:03X}/{:02X} which the forced graph exploration never produced", hex(&code), s.micro_address, s.instruction_register));
                    }
                }
            }
            (edges, outside, broken)
        });
        let mut traced = 0u64;
        for (_, _, b) in &res {
            if let Some(b) = b {
                ev.violation("trace", "c09:leaves-routine-of-fetched-opcode", b.clone(), json!({"part": "concrete-trace"}));
            }
        }
        let broken_any = res.iter().any(|(_, _, b)| b.is_some());
        for (e, o, _) in res {
            traced += e;
            if broken_any {
                continue;
            }
            if let Some(o) = o {
                println!("HARNESS-ERROR property=C09 {}", o);
                println!("INCONCLUSIVE property=C09 the graph extraction does not cover real execution");
                let code = finish(ctx, std::mem::replace(&mut ev, Evidence::new("exploration", "")));
                std::process::exit(if code == 1 { 1 } else { 2 });
            }
        }
        ev.evaluations += traced;
        ev.class("concrete-trace-edges-inside-the-graph", traced);
        ev.extra.insert("traces_validated_against_impl".into(), json!(n_prog));
    }

    // ---- concrete MUL / DIV termination for all operand pairs (and Rd = Rs)
    let jobs: Vec<(u8, u8, u8)> = vec![(0xB0, 0, 1), (0xB0, 1, 1), (0xC0, 0, 1), (0xC0, 2, 2)];
    let res = par_chunks(ctx.threads, jobs.len() * 16, |k| {
        let (base_op, d, s) = jobs[k / 16];
        let op = base_op + (s << 2) + d;
        let mut worst = 0usize;
        let mut bad: Option<(u8, u8, String)> = None;
        let mut n = 0u64;
        for a in ((k % 16) * 16)..((k % 16) * 16 + 16) {
            for b in 0..=255u8 {
                if d == s && a as u8 != b {
                    continue;
                }
                let mut regs = [0u8; 8];
                regs[d as usize] = a as u8;
                regs[s as usize] = b;
                regs[3] = 0x20;
                regs[5] = 0x80;
                let mut ram = [0x02u8; 0xF0];
                ram[0x20] = op;
                let st = ArchState { regs, ram, inp: [0; 4] };
                n += 1;
                let mut m = match machine_at_boundary(&st) {
                    Some(m) => m,
                    None => {
                        if bad.is_none() {
                            bad = Some((a as u8, b, "machine does not reach its first instruction fetch from reset".to_string()));
                        }
                        continue;
                    }
                };
                // bound in control words + the two fetch waits
                let bound = if base_op == 0xB0 { 3 * 8 + 8 + 3 + 3 } else { 2 * 255 + 6 + 3 };
                match run_to_boundary(m.raw_mut(), bound) {
                    Some(e) => worst = worst.max(e),
                    None => {
                        if bad.is_none() {
                            bad = Some((a as u8, b, format!("{} Rd={:02X} Rs={:02X} did not complete within {} edges", if base_op == 0xB0 { "MUL" } else { "DIV" }, a, b, bound)));
                        }
                    }
                }
                if m.state() != State::Running && bad.is_none() {
                    bad = Some((a as u8, b, format!("machine halted during MUL/DIV Rd={:02X} Rs={:02X}", a, b)));
                }
            }
        }
        (n, worst, bad, op)
    });
    let mut conc = 0u64;
    let mut worst_mul = 0;
    let mut worst_div = 0;
    for (n, worst, bad, op) in res {
        conc += n;
        if op >> 4 == 0xB {
            worst_mul = worst_mul.max(worst)
        } else {
            worst_div = worst_div.max(worst)
        }
        if let Some((a, b, d)) = bad {
            ev.violation("muldiv", "c09:loop-termination", d, json!({"op": op, "a": a, "b": b}));
        }
    }
    ev.evaluations += conc;
    ev.class("concrete-mul-div-executions", conc);
    ev.extra.insert("worst_case_edges".into(), json!({"MUL": worst_mul, "DIV": worst_div}));
    ev.exhaustive = Some(true);
    ev
}
