//! C04 — key interrupts are taken once, at an instruction boundary, and transparently.
//!
//! Generated (main program, ISR) pairs; for each program every clock cycle 0..=T is tried as the
//! trigger point (exhaustive per program) and, in a window, every ordered pair of cycles.
//! Oracle: clone-based obligation monitor + entry shape + transparency (metamorphic relation
//! interrupted run == uninterrupted run).  Only public observables are used.
use crate::engine::*;
use crate::progen_sem::*;
use emulator_2a_lib::compiler::ByteCode;
use emulator_2a_lib::machine::{Machine, MachineConfig, State};
use emulator_2a_lib::parser::{Line, Programsize, Stacksize};
use proptest::prelude::*;
use serde::{Deserialize, Serialize};
use serde_json::json;

const CNT: usize = 0xB0;
const LOOPCELL: u8 = 0xAF;
const DATA_LO: u8 = 0x90;
const DATA_HI: u8 = 0xAE;
const STACK_LO: usize = 0xB8;

#[derive(Clone, Debug, Serialize, Deserialize)]
pub enum Item {
    Plain(Tm),
    /// bounded loop: count, body
    Loop(u8, Vec<Tm>),
    /// call subroutine k (0..2)
    Call(u8),
    /// PUSH r ; items ; POP r   (nesting gives varying stack depth)
    PushPop(u8, Vec<Item>),
    /// DI ; items ; EI
    DiWindow(Vec<Item>),
    /// set (BITS (0xF9),1) or clear (plain store of 0) the key-edge enable bit
    KeyEnable(bool),
    /// PUSHF ; items ; POPF
    FlagsSaved(Vec<Item>),
    /// STOP in the middle of the main program (a breakpoint): the run holds the halt for a few edges and
    /// then presses the continue key; a key press before or during the halt is served right after it
    Breakpoint,
    /// plain store of an arbitrary byte to the interrupt mask register 0xF9 (bit 0 is the key-edge
    /// enable bit; the other bits, assigned or not, must not matter)
    MaskWrite(u8),
}

#[derive(Clone, Debug, Serialize, Deserialize)]
pub struct Prog {
    pub enable_at_start: bool,
    pub ei_at_start: bool,
    pub items: Vec<Item>,
    pub subs: [Vec<Tm>; 2],
    /// ISR flavour: 0 minimal, 1 stack heavy, 2 long (MUL), 3 touches flags heavily
    pub isr: u8,
    pub stack48: bool,
    /// initial stack pointer (0xE0..=0xEF)
    pub sp0: u8,
}

fn tame() -> impl Strategy<Value = Tm> {
    prop_oneof![
        8 => tm_tame(DATA_LO, DATA_HI),
        1 => (0u8..4).prop_map(Tm::Ei),
        1 => (0u8..4).prop_map(Tm::Di),
        1 => any::<u8>().prop_map(Tm::LdFr),
        1 => prop::sample::select(vec![0x00u8, 0x08, 0x0F, 0x07, 0xF8]).prop_map(Tm::LdFr),
        2 => (prop::sample::select(vec![0xB0u8, 0xC0]), 0u8..3, 0u8..3).prop_map(|(b, d, s)| Tm::Alu(b, d, s)),
        // port traffic of the main program: stores to and loads from the I/O page (everything but the
        // interrupt mask/status register 0xF9, which KeyEnable handles and whose read-out legitimately
        // depends on the key press)
        1 => (prop::sample::select(vec![0xF0u8, 0xF1, 0xF2, 0xF3, 0xFA, 0xFB, 0xFC, 0xFD, 0xFE, 0xFF]), 0u8..3).prop_map(|(a, r)| Tm::StAbs(a, r)),
        1 => (0u8..3, prop::sample::select(vec![0xF0u8, 0xF1, 0xF2, 0xF3, 0xFA, 0xFB, 0xFC, 0xFD, 0xFE, 0xFF])).prop_map(|(r, a)| Tm::LdAbs(r, a)),
    ]
}

fn body(max: usize) -> impl Strategy<Value = Vec<Tm>> {
    prop::collection::vec(tame(), 1..max)
}

fn item() -> impl Strategy<Value = Item> {
    let leaf = prop_oneof![
        10 => tame().prop_map(Item::Plain),
        2 => (1u8..5, body(4)).prop_map(|(n, b)| Item::Loop(n, b)),
        2 => (0u8..2).prop_map(Item::Call),
        2 => any::<bool>().prop_map(Item::KeyEnable),
        1 => Just(Item::Breakpoint),
        2 => prop_oneof![any::<u8>(), prop::sample::select(vec![0x01u8, 0x00, 0xFF, 0xFE, 0xC1, 0x80, 0x41, 0x3F, 0xC0])].prop_map(Item::MaskWrite),
    ];
    leaf.prop_recursive(3, 16, 4, |inner| {
        prop_oneof![
            3 => (0u8..3, prop::collection::vec(inner.clone(), 1..4)).prop_map(|(r, b)| Item::PushPop(r, b)),
            2 => prop::collection::vec(inner.clone(), 1..4).prop_map(Item::DiWindow),
            1 => prop::collection::vec(inner, 1..3).prop_map(Item::FlagsSaved),
        ]
    })
}

pub fn prog_strategy() -> impl Strategy<Value = Prog> {
    (prop_oneof![3 => Just(true), 1 => Just(false)], prop_oneof![3 => Just(true), 1 => Just(false)], prop::collection::vec(item(), 1..20), [body(4), body(4)], 0u8..4, any::<bool>(), 0xE0u8..=0xEF).prop_map(|(enable_at_start, ei_at_start, items, subs, isr, stack48, sp0)| Prog {
        enable_at_start,
        ei_at_start,
        items,
        subs,
        isr,
        stack48,
        sp0,
    })
}

/// BITS (0xF9), 1
fn set_enable() -> Tm {
    Tm::Two(0x50, 2, 3, 1, 3, 3, 0xF9)
}

/// Lay the program out: 0: JR MAIN; 2: JMP ISR; 5: MAIN ... STOP; subs; ISR.  None if it does not fit below the data area.
pub fn layout(p: &Prog) -> Option<Vec<u8>> {
    layout_with_end(p).map(|(c, _, _)| c)
}

/// (address of the instruction that stores to the interrupt mask register, key-edge enable bit it writes)
pub type MaskStores = Vec<(u8, bool)>;

/// image and the value of the PC right after the *final* STOP was fetched (every other regular stop
/// is a breakpoint)
pub fn layout_with_end(p: &Prog) -> Option<(Vec<u8>, u8, MaskStores)> {
    let mut code: Vec<u8> = vec![0x20, 0x03, 0xFB, 0x00, 0x13];
    let mut call_sites: Vec<(usize, u8)> = vec![];
    let mut masks: MaskStores = vec![];
    let emit = |code: &mut Vec<u8>, ts: &[Tm]| {
        for t in ts {
            assemble_one(t, code);
        }
    };
    emit(&mut code, &[Tm::LdSp(p.sp0)]);
    if p.enable_at_start {
        masks.push((code.len() as u8, true));
        emit(&mut code, &[set_enable()]);
    }
    if p.ei_at_start {
        emit(&mut code, &[Tm::Ei(0)]);
    }
    fn emit_items(code: &mut Vec<u8>, call_sites: &mut Vec<(usize, u8)>, masks: &mut MaskStores, items: &[Item]) {
        let emit = |code: &mut Vec<u8>, ts: &[Tm]| {
            for t in ts {
                assemble_one(t, code);
            }
        };
        for it in items {
            match it {
                Item::Plain(t) => emit(code, &[t.clone()]),
                Item::Loop(n, b) => {
                    emit(code, &[Tm::LdConst(0, *n), Tm::StAbs(LOOPCELL, 0)]);
                    let start = code.len();
                    emit(code, b);
                    emit(code, &[Tm::DecMode(3, 3, LOOPCELL)]);
                    // JZC start
                    let after = code.len() + 2;
                    let off = (start as i32 - after as i32) as i8 as u8;
                    code.extend_from_slice(&[0x26, off]);
                }
                Item::Call(k) => {
                    code.push(0x28);
                    call_sites.push((code.len(), *k));
                    code.push(0);
                }
                Item::PushPop(r, b) => {
                    emit(code, &[Tm::Push(*r)]);
                    emit_items(code, call_sites, masks, b);
                    emit(code, &[Tm::Pop(*r)]);
                }
                Item::DiWindow(b) => {
                    emit(code, &[Tm::Di(0)]);
                    emit_items(code, call_sites, masks, b);
                    emit(code, &[Tm::Ei(0)]);
                }
                Item::KeyEnable(on) => {
                    if *on {
                        masks.push((code.len() as u8, true));
                        emit(code, &[set_enable()]);
                    } else {
                        masks.push(((code.len() + 3) as u8, false));
                        emit(code, &[Tm::LdConst(1, 0), Tm::StAbs(0xF9, 1)]);
                    }
                }
                Item::FlagsSaved(b) => {
                    emit(code, &[Tm::PushF]);
                    emit_items(code, call_sites, masks, b);
                    emit(code, &[Tm::PopF]);
                }
                Item::Breakpoint => code.push(0x01),
                Item::MaskWrite(b) => {
                    masks.push(((code.len() + 3) as u8, *b & 1 == 1));
                    emit(code, &[Tm::LdConst(1, *b), Tm::StAbs(0xF9, 1)])
                }
            }
        }
    }
    emit_items(&mut code, &mut call_sites, &mut masks, &p.items);
    code.push(0x01); // STOP
    let final_pc = code.len() as u8;
    let mut sub_addr = [0u8; 2];
    for k in 0..2 {
        sub_addr[k] = code.len() as u8;
        emit(&mut code, &p.subs[k]);
        code.push(0x17); // RET
    }
    for (pos, k) in call_sites {
        code[pos] = sub_addr[k as usize];
    }
    let isr_addr = code.len();
    code[3] = isr_addr as u8;
    // ISR: saves what it uses, counts, RETI
    let isr: Vec<Tm> = match p.isr {
        0 => vec![Tm::Push(0), Tm::LdAbs(0, CNT as u8), Tm::Unary(0x44, 0), Tm::StAbs(CNT as u8, 0), Tm::Pop(0), Tm::Reti],
        1 => vec![Tm::Push(0), Tm::Push(1), Tm::Push(2), Tm::PushF, Tm::LdAbs(0, CNT as u8), Tm::Unary(0x44, 0), Tm::StAbs(CNT as u8, 0), Tm::PopF, Tm::Pop(2), Tm::Pop(1), Tm::Pop(0), Tm::Reti],
        2 => vec![Tm::Push(0), Tm::Push(1), Tm::LdConst(0, 0xFF), Tm::LdConst(1, 0xFF), Tm::Alu(0xB0, 0, 1), Tm::LdAbs(0, CNT as u8), Tm::Unary(0x44, 0), Tm::StAbs(CNT as u8, 0), Tm::Pop(1), Tm::Pop(0), Tm::Reti],
        _ => vec![Tm::Push(0), Tm::LdFr(0x07), Tm::LdAbs(0, CNT as u8), Tm::Unary(0x44, 0), Tm::StAbs(CNT as u8, 0), Tm::Unary(0x34, 0), Tm::Pop(0), Tm::Reti],
    };
    emit(&mut code, &isr);
    if code.len() > DATA_LO as usize {
        return None;
    }
    Some((code, final_pc, masks))
}

/// regular stop that is not the end of the program
fn at_breakpoint(m: &Machine, final_pc: u8) -> bool {
    m.state() == State::Stopped && m.registers().content()[3] != final_pc
}

fn bytecode(image: &[u8], stack48: bool) -> ByteCode {
    ByteCode { lines: vec![(Line::Empty(None), image.to_vec())], stacksize: if stack48 { Stacksize::_48 } else { Stacksize::_0 }, programsize: Programsize::Size(0xEF) }
}

fn sampling(op: u8) -> bool {
    !((0x08..=0x0F).contains(&op) || (0x2C..=0x2F).contains(&op))
}

#[derive(Clone)]
struct Tracked {
    m: Machine,
    cur_op: u8,
    was_done: bool,
    arrivals: u64,
    /// the edge count at which the current instruction started
    mid: bool,
    /// address of the instruction in flight (or about to be fetched)
    cur_addr: u8,
    /// key-edge enable bit according to the program text: the bit written by the last *completed* store to
    /// the mask register (never read back from the machine under test)
    model_en: bool,
    masks: std::sync::Arc<MaskStores>,
}

impl Tracked {
    fn new(m: Machine, masks: std::sync::Arc<MaskStores>) -> Self {
        let d = m.is_instruction_done();
        let pc = m.registers().content()[3];
        let op = m.bus().read(pc);
        Tracked { m, cur_op: if d { op } else { 0x02 }, was_done: d, arrivals: 0, mid: false, cur_addr: if d { pc } else { 0xFF }, model_en: false, masks }
    }
    /// the mask store in flight (if any) flips the enable bit
    fn mask_change_in_flight(&self) -> bool {
        self.mid && self.masks.iter().any(|(a, v)| *a == self.cur_addr && *v != self.model_en)
    }
    /// one edge; returns Some(completed opcode) when a boundary is newly reached
    fn edge(&mut self) -> Option<u8> {
        self.m.trigger_key_clock();
        let d = self.m.is_instruction_done();
        let r = if d && !self.was_done {
            let done = self.cur_op;
            if let Some((_, v)) = self.masks.iter().find(|(a, _)| *a == self.cur_addr) {
                self.model_en = *v;
            }
            self.cur_addr = self.m.registers().content()[3];
            self.cur_op = self.m.bus().read(self.cur_addr);
            self.arrivals += 1;
            Some(done)
        } else {
            None
        };
        self.was_done = d;
        self.mid = !d;
        r
    }
}

fn arch_eq(a: &Machine, b: &Machine) -> bool {
    a.registers().content()[..6] == b.registers().content()[..6] && a.bus().memory()[..] == b.bus().memory()[..] && a.bus().output_fe() == b.bus().output_fe() && a.bus().output_ff() == b.bus().output_ff() && a.state() == b.state()
}

#[derive(Debug, PartialEq, Clone, Copy)]
enum Exp {
    Must,
    MustNot,
    Free,
}

struct Ob {
    u: Tracked,
    target_arrivals: u64,
    exp: Exp,
    halted: bool,
    mid_instruction: bool,
}

#[derive(Default, Clone)]
pub struct RunStats {
    pub must: u64,
    pub must_not: u64,
    pub free: u64,
    pub entered: u64,
    pub merged: u64,
    pub nontrivial: u64,
    pub must_while_halted: u64,
}

type Fail = (String, String);

fn run_triggered(bc: &ByteCode, final_pc: u8, masks: &std::sync::Arc<MaskStores>, triggers: &[usize], st: &mut RunStats) -> Result<(Machine, u64), Fail> {
    let mut m = Machine::new(MachineConfig::default());
    m.load(bc.clone());
    let mut r = Tracked::new(m, masks.clone());
    let mut ob: Option<Ob> = None;
    let mut entries = 0u64;
    let mut t = 0usize;
    let mut held = 0usize;
    loop {
        if r.m.state() != State::Running {
            if !at_breakpoint(&r.m, final_pc) {
                break;
            }
            // hold the halt for 2..=5 edges (key presses may fall into it), then continue
            if held >= 2 + (r.m.registers().content()[3] as usize % 4) {
                r.m.trigger_key_continue();
                held = 0;
                continue;
            }
            held += 1;
        }
        if t >= 400_000 {
            break;
        }
        let hits = triggers.iter().filter(|x| **x == t).count();
        for _ in 0..hits {
            if ob.is_none() {
                let mut u = r.clone();
                // the enable bit as the program text has it (a store in flight that flips it leaves the press undecided)
                let en = u.model_en;
                let en_in_flight = u.mask_change_in_flight();
                let ief_t = u.m.registers().interrupt_enable_flag();
                let mid = !u.m.is_instruction_done();
                let mut halted = false;
                let mut n = 0;
                loop {
                    if u.m.state() != State::Running {
                        if at_breakpoint(&u.m, final_pc) {
                            u.m.trigger_key_continue();
                            continue;
                        }
                        halted = true;
                        break;
                    }
                    n += 1;
                    if n > 100_000 {
                        return Err(("int:reference-no-boundary".into(), "uninterrupted clone reaches no sampling boundary".into()));
                    }
                    if let Some(op) = u.edge() {
                        if sampling(op) {
                            break;
                        }
                    }
                }
                let ief_b = u.m.registers().interrupt_enable_flag();
                let exp = if en_in_flight {
                    Exp::Free
                } else if !en {
                    Exp::MustNot
                } else if ief_t && ief_b && !halted {
                    Exp::Must
                } else if !ief_t && !ief_b {
                    // interrupts disabled at the key press and still disabled at the sampling point
                    Exp::MustNot
                } else {
                    Exp::Free
                };
                if exp == Exp::Must && r.m.state() != State::Running {
                    st.must_while_halted += 1;
                }
                match exp {
                    Exp::Must => st.must += 1,
                    Exp::MustNot => st.must_not += 1,
                    Exp::Free => st.free += 1,
                }
                if (exp == Exp::Must && mid) || (exp == Exp::MustNot && ief_t) {
                    st.nontrivial += 1;
                }
                ob = Some(Ob { target_arrivals: u.arrivals, u, exp, halted, mid_instruction: mid });
            } else {
                st.merged += 1;
                // a second press before the first is decided joins the same obligation; if the enable
                // bit has been set in the meantime (the instruction in flight is the one that sets it),
                // a must-not obligation no longer holds
                let en2 = r.model_en || r.mask_change_in_flight();
                if let Some(o) = ob.as_mut() {
                    if en2 && o.exp == Exp::MustNot {
                        o.exp = Exp::Free;
                    }
                }
            }
            r.m.trigger_key_interrupt();
        }
        let arrived = r.edge();
        t += 1;
        if let (Some(_), Some(o)) = (arrived, ob.as_ref()) {
            if !o.halted && r.arrivals == o.target_arrivals {
                let u = &o.u.m;
                let (rc, uc) = (*r.m.registers().content(), *u.registers().content());
                let entered = rc[3] == 2 && rc[5] == uc[5].wrapping_sub(2);
                if entered {
                    let sp = rc[5] as usize;
                    let mem = r.m.bus().memory();
                    let mut why = vec![];
                    if sp + 1 >= 0xF0 {
                        why.push("frame outside RAM".to_string());
                    } else {
                        if mem[sp] != uc[3] {
                            why.push(format!("pushed return address {:02X}, next instruction is at {:02X}", mem[sp], uc[3]));
                        }
                        if mem[sp + 1] != uc[4] {
                            why.push(format!("pushed flags {:02X}, flags were {:02X}", mem[sp + 1], uc[4]));
                        }
                        for a in 0..0xF0 {
                            if a != sp && a != sp + 1 && mem[a] != u.bus().memory()[a] {
                                why.push(format!("RAM[{:02X}] changed by the entry", a));
                                break;
                            }
                        }
                    }
                    if rc[4] & 0x08 != 0 {
                        why.push("interrupts not disabled on entry".into());
                    }
                    if rc[4] & 0x07 != uc[4] & 0x07 {
                        why.push(format!("C/Z/N flags changed by the entry: {:02X} -> {:02X}", uc[4], rc[4]));
                    }
                    if rc[..3] != uc[..3] {
                        why.push("R0-R2 changed by the entry".into());
                    }
                    if r.m.bus().output_fe() != u.bus().output_fe() || r.m.bus().output_ff() != u.bus().output_ff() {
                        why.push("outputs changed by the entry".into());
                    }
                    if !why.is_empty() {
                        return Err(("int:entry-shape".into(), format!("trigger(s) {:?}: bad interrupt entry at edge {}: {}", triggers, t, why.join("; "))));
                    }
                    if o.exp == Exp::MustNot {
                        return Err(("int:entered-while-disabled".into(), format!("trigger(s) {:?}: routine entered although the key-edge enable bit or the interrupt-enable flag was clear at the key press (and at the sampling point)", triggers)));
                    }
                    entries += 1;
                    st.entered += 1;
                } else {
                    if !arch_eq(&r.m, u) {
                        return Err((
                            "int:not-at-boundary-or-state-changed".into(),
                            format!("trigger(s) {:?}: at the first sampling boundary after the key press (edge {}) the machine is neither in the routine nor equal to the uninterrupted run: regs {:02X?} vs {:02X?}", triggers, t, &rc[..6], &uc[..6]),
                        ));
                    }
                    if o.exp == Exp::Must {
                        return Err((
                            if o.mid_instruction { "int:not-taken:mid-instruction".into() } else { "int:not-taken:at-boundary".into() },
                            format!("trigger(s) {:?}: key pressed with enable bit and IEF set, but the routine was not entered at the next instruction boundary (edge {})", triggers, t),
                        ));
                    }
                }
                ob = None;
            }
        }
    }
    if r.m.state() == State::Running {
        return Err(("int:run-does-not-terminate".into(), format!("trigger(s) {:?}: interrupted run still running after 400000 edges", triggers)));
    }
    if let Some(o) = &ob {
        if !o.halted && o.exp == Exp::Must {
            return Err(("int:obligation-never-decided".into(), format!("trigger(s) {:?}: run ended before the obliged entry", triggers)));
        }
    }
    Ok((r.m, entries))
}

pub struct ProgStats {
    pub t: usize,
    pub runs: u64,
    pub st: RunStats,
    pub fits: bool,
}

fn transparent(m: &Machine, base: &Machine) -> Option<String> {
    let (a, b) = (m.registers().content(), base.registers().content());
    if a[..6] != b[..6] {
        return Some(format!("registers/flags/SP {:02X?} vs uninterrupted {:02X?}", &a[..6], &b[..6]));
    }
    if m.state() != base.state() {
        return Some(format!("state {:?} vs {:?}", m.state(), base.state()));
    }
    if m.bus().output_fe() != base.bus().output_fe() || m.bus().output_ff() != base.bus().output_ff() {
        return Some("output registers differ".into());
    }
    let sp = a[5] as usize;
    for ad in 0..0xF0 {
        if ad == CNT || (ad < sp && ad >= STACK_LO) {
            continue;
        }
        if m.bus().memory()[ad] != base.bus().memory()[ad] {
            return Some(format!("RAM[{:02X}] = {:02X} vs uninterrupted {:02X}", ad, m.bus().memory()[ad], base.bus().memory()[ad]));
        }
    }
    None
}

/// Check one program with the given trigger sets (None = every single cycle + the pair window).
pub fn check_prog(p: &Prog, pairs_window: Option<(usize, usize)>, only: Option<&[usize]>) -> (Verdict, ProgStats) {
    let mut ps = ProgStats { t: 0, runs: 0, st: RunStats::default(), fits: true };
    // too long for the code area: drop trailing items until it fits (construction, not rejection)
    let mut p = p.clone();
    while layout(&p).is_none() && p.items.len() > 1 {
        p.items.pop();
    }
    let p = &p;
    let (image, final_pc, masks) = match layout_with_end(p) {
        Some(i) => i,
        None => {
            ps.fits = false;
            return (Verdict::Pass, ps);
        }
    };
    let bc = bytecode(&image, p.stack48);
    let masks = std::sync::Arc::new(masks);
    let mut scratch = RunStats::default();
    let (base, e0) = match run_triggered(&bc, final_pc, &masks, &[], &mut scratch) {
        Ok(x) => x,
        Err((s, d)) => {
            // a generated program that does not terminate or error-stops is discarded, not a finding
            let _ = (s, d);
            ps.fits = false;
            return (Verdict::Pass, ps);
        }
    };
    if base.state() != State::Stopped || e0 != 0 {
        ps.fits = false;
        return (Verdict::Pass, ps);
    }
    let mut m = Machine::new(MachineConfig::default());
    m.load(bc.clone());
    // T = length of the uninterrupted run in edges, breakpoint halts included (held as in run_triggered)
    let mut tmax = 0usize;
    let mut held = 0usize;
    loop {
        if m.state() != State::Running {
            if !at_breakpoint(&m, final_pc) {
                break;
            }
            if held >= 2 + (m.registers().content()[3] as usize % 4) {
                m.trigger_key_continue();
                held = 0;
                continue;
            }
            held += 1;
        }
        m.trigger_key_clock();
        tmax += 1;
        if tmax > 400_000 {
            break;
        }
    }
    ps.t = tmax;
    let mut one = |trigs: &[usize], ps: &mut ProgStats| -> Result<(), Fail> {
        ps.runs += 1;
        let (m, entries) = run_triggered(&bc, final_pc, &masks, trigs, &mut ps.st)?;
        let cnt = m.bus().memory()[CNT] as u64;
        if cnt != entries {
            return Err(("int:entry-count".into(), format!("trigger(s) {:?}: the routine ran {} time(s) but {} entr(y/ies) were observed at instruction boundaries", trigs, cnt, entries)));
        }
        if let Some(d) = transparent(&m, &base) {
            return Err(("int:not-transparent".into(), format!("trigger(s) {:?}: interrupted run ends differently: {}", trigs, d)));
        }
        Ok(())
    };
    if let Some(tr) = only {
        if let Err((s, d)) = one(tr, &mut ps) {
            return (Verdict::Fail(s, d), ps);
        }
        return (Verdict::Pass, ps);
    }
    for t in 0..=tmax {
        if let Err((s, d)) = one(&[t], &mut ps) {
            return (Verdict::Fail(s, d), ps);
        }
    }
    // second key press at every cycle of the 150 cycles that follow a first one (covers the whole
    // routine incl. its RETI and the instructions after the return), for three first presses
    for t1 in [tmax / 4, tmax / 2, (3 * tmax) / 4] {
        for t2 in t1..(t1 + 150).min(tmax + 1) {
            if let Err((s, d)) = one(&[t1, t2], &mut ps) {
                return (Verdict::Fail(s, d), ps);
            }
        }
    }
    if let Some((lo, len)) = pairs_window {
        let lo = lo.min(tmax.saturating_sub(len));
        for t1 in lo..(lo + len).min(tmax + 1) {
            for t2 in t1..(lo + len).min(tmax + 1) {
                if let Err((s, d)) = one(&[t1, t2], &mut ps) {
                    return (Verdict::Fail(s, d), ps);
                }
            }
        }
    }
    (Verdict::Pass, ps)
}

#[derive(Clone, Debug, Serialize, Deserialize)]
pub struct Case {
    pub prog: Prog,
    pub pair_lo: u16,
    pub pairs: bool,
}

pub fn run(ctx: &Ctx) -> Evidence {
    let mut ev = Evidence::new(
        "exploration",
        "proptest-generated (main program, ISR) pairs — EI/DI windows, LDFR/POPF, enable-bit set/clear, MUL/DIV, CALL/RET, bounded loops, 4 ISR flavours — each run with the key pressed at EVERY clock cycle 0..=T (exhaustive per program) and, for a subset, every ordered pair of cycles in a 40-cycle window; clone-based obligation monitor + entry-shape + transparency oracle; an evaluation is one triggered run; non-trivial = obliged entry whose trigger fell strictly inside an instruction, or a must-not-enter trigger with IEF set; distinct = counted per (program, trigger) pair",
    );
    ev.assumptions.push("main programs never read 0xF9 except through BITS (0xF9),1 (the status register legitimately shows a key press)".into());
    ev.assumptions.push("key press while IEF changes under it (EI/DI/LDFR/POPF/RETI in flight) or before a halt: entry count unconstrained (0 or 1), shape and transparency still checked".into());
    if let Some(path) = &ctx.replay {
        let doc: serde_json::Value = serde_json::from_str(&std::fs::read_to_string(path).expect("replay")).expect("json");
        let c: Case = serde_json::from_value(doc["case"].clone()).expect("case");
        ev.evaluations = 1;
        let v = catch(|| check_prog(&c.prog, if c.pairs { Some((c.pair_lo as usize, 40)) } else { None }, None).0).unwrap_or_else(|p| Verdict::Fail(panic_signature(&p), p));
        if let Verdict::Fail(s, d) = v {
            ev.violation("prog", &s, d, doc["case"].clone());
        }
        return ev;
    }
    let known: Vec<String> = load_known("C04").into_iter().map(|k| k.signature).collect();
    let n_prog: u64 = ctx.tier.pick(12_000, 300_000);
    let strat = || (prog_strategy(), 0u16..400, prop_oneof![1 => Just(true), 5 => Just(false)]).prop_map(|(prog, pair_lo, pairs)| Case { prog, pair_lo, pairs });
    let collected = std::sync::Mutex::new(Evidence::new("", ""));
    let res = par_search(ctx.threads, 32, ctx.seed, n_prog, strat, &known, |c, first, _| {
        let (v, ps) = check_prog(&c.prog, if c.pairs { Some((c.pair_lo as usize, 40)) } else { None }, None);
        if first {
            let mut e = collected.lock().unwrap();
            if !ps.fits {
                *e.classes.entry("programs:discarded(too long / not terminating)".into()).or_insert(0) += 1;
            } else {
                *e.classes.entry("programs".into()).or_insert(0) += 1;
                e.evaluations += ps.runs;
                *e.classes.entry("obligations:must-enter".into()).or_insert(0) += ps.st.must;
                *e.classes.entry("obligations:must-not-enter".into()).or_insert(0) += ps.st.must_not;
                *e.classes.entry("obligations:unconstrained".into()).or_insert(0) += ps.st.free;
                *e.classes.entry("obligations:must-enter, key pressed during a breakpoint halt".into()).or_insert(0) += ps.st.must_while_halted;
                *e.classes.entry("entries-observed".into()).or_insert(0) += ps.st.entered;
                *e.classes.entry("merged-second-triggers".into()).or_insert(0) += ps.st.merged;
                *e.classes.entry("uninterrupted-edges-total".into()).or_insert(0) += ps.t as u64;
                let h = hash_of(&serde_json::to_string(&c.prog).unwrap());
                for k in 0..ps.st.nontrivial {
                    e.nontrivial.insert(mix(h ^ k));
                }
                if e.samples.len() < 3 {
                    let s = json!({"image": layout(&c.prog).map(|i| hex(&i)), "T": ps.t, "triggered_runs": ps.runs, "must": ps.st.must, "must_not": ps.st.must_not, "unconstrained": ps.st.free});
                    e.samples.push(s);
                }
            }
        }
        v
    });
    for r in res {
        if let Some((c, s, d)) = r.failure {
            ev.violation("prog", &s, d, serde_json::to_value(&c).unwrap());
        }
        for (c, s, d) in r.tolerated {
            ev.violation("prog", &s, d, serde_json::to_value(&c).unwrap());
        }
    }
    ev.merge(collected.into_inner().unwrap());
    // generator health: the programs are built to terminate in STOP; if many of them do not on this
    // tree the check would pass vacuously — report that as inconclusive instead
    let used = ev.classes.get("programs").copied().unwrap_or(0);
    let discarded = ev.classes.get("programs:discarded(too long / not terminating)").copied().unwrap_or(0);
    if ev.violations.is_empty() && discarded * 10 > used + discarded {
        println!("INCONCLUSIVE property=C04 {} of {} generated programs do not run to STOP uninterrupted on this tree: nothing meaningful was explored", discarded, used + discarded);
        let code = finish(ctx, ev);
        std::process::exit(if code == 1 { 1 } else { 2 });
    }
    ev
}
