//! C11 — one Assembly-mode step == single clock edges to the next instruction boundary.
//!
//! A machine under test is driven through the public `Machine` API with mode switches; a twin is
//! driven with raw edges only, an Assembly step being replaced by the reference stepping written
//! here from the statement.  After every operation both must be equal (whole `RawMachine`).
use crate::engine::*;
use crate::isa::Outcome;
use crate::mach::*;
use crate::progen_sem::*;
use crate::props::c05::Fill;
use emulator_2a_lib::machine::{Machine, MachineConfig, RawMachine, State, StepMode};
use emulator_2a_lib::parser::Programsize;
use proptest::prelude::*;
use serde::{Deserialize, Serialize};
use serde_json::json;
use std::sync::atomic::{AtomicBool, Ordering};

static HANG_SEEN: AtomicBool = AtomicBool::new(false);
/// helper-thread budget for termination-critical steps (thread creation is expensive; after the
/// budget such steps run inline, where a hang ends in the global watchdog = inconclusive)
static GUARDED_LEFT: std::sync::atomic::AtomicI64 = std::sync::atomic::AtomicI64::new(4000);

#[derive(Clone, Debug, Serialize, Deserialize)]
pub enum Op {
    /// n raw edges in Real mode
    Edges(u8),
    /// one step in Assembly mode
    AsmStep,
    /// k steps in Assembly mode
    AsmSteps(u8),
    KeyInt,
    Continue,
    CpuReset,
    Input(u8, u8),
    MasterReset,
    /// `Machine::load` of the case's own image again (through the assembler), on both machines
    Reload,
}

#[derive(Clone, Debug, Serialize, Deserialize)]
pub struct StepCase {
    pub prog: Vec<Tm>,
    pub fill: Fill,
    pub inp: [u8; 4],
    pub stack: u8,
    pub limit: u8,
    /// enable key-edge interrupts and set IEF in a prelude
    pub int_prelude: bool,
    pub ops: Vec<Op>,
}

fn op_strategy() -> impl Strategy<Value = Op> {
    prop_oneof![
        6 => (1u8..12).prop_map(Op::Edges),
        8 => Just(Op::AsmStep),
        2 => (2u8..6).prop_map(Op::AsmSteps),
        2 => Just(Op::KeyInt),
        1 => Just(Op::Continue),
        1 => Just(Op::CpuReset),
        1 => (0u8..4, any::<u8>()).prop_map(|(i, v)| Op::Input(i, v)),
        1 => Just(Op::MasterReset),
        1 => Just(Op::Reload),
    ]
}

pub fn step_strategy() -> impl Strategy<Value = StepCase> {
    (
        prop::collection::vec(prop_oneof![8 => tm_any(), 1 => Just(Tm::Stop), 1 => any::<u8>().prop_map(Tm::Raw)], 1..40),
        prop_oneof![Just(Fill::Zero), Just(Fill::Nops), any::<u64>().prop_map(Fill::Seed)],
        [byte_biased(), byte_biased(), byte_biased(), byte_biased()],
        0u8..5,
        prop_oneof![3 => Just(255u8), 1 => any::<u8>()],
        any::<bool>(),
        prop::collection::vec(op_strategy(), 1..60),
    )
        .prop_map(|(prog, fill, inp, stack, limit, int_prelude, ops)| StepCase { prog, fill, inp, stack, limit, int_prelude, ops })
}

fn build(c: &StepCase) -> Machine {
    let mut prog = vec![];
    if c.int_prelude {
        // LDSP 0x90 ; LD R0,1 ; ST (0xF9),R0 ; EI
        prog.extend_from_slice(&[Tm::LdSp(0x90), Tm::LdConst(0, 1), Tm::StAbs(0xF9, 0), Tm::Ei(0)]);
    }
    prog.extend(c.prog.iter().cloned());
    let mut image = assemble(&prog);
    image.truncate(0xF0);
    let mut ram = match c.fill {
        Fill::Zero => [0u8; 0xF0],
        Fill::Nops => [0x02u8; 0xF0],
        Fill::Seed(s) => ram_from_seed(s),
    };
    ram[..image.len()].copy_from_slice(&image);
    let mut m = Machine::new(MachineConfig::default());
    m.raw_mut().set_stacksize(STACKSIZES[c.stack as usize]);
    m.raw_mut().set_programsize(Programsize::Size(c.limit));
    m.raw_mut().bus_mut().memory_mut().copy_from_slice(&ram);
    m.set_input_fc(c.inp[0]);
    m.set_input_fd(c.inp[1]);
    m.set_input_fe(c.inp[2]);
    m.set_input_ff(c.inp[3]);
    m
}

/// the case's image as a program text (data bytes only) with the case's limits, assembled
fn reload_bytecode(c: &StepCase) -> Option<emulator_2a_lib::compiler::ByteCode> {
    let m = build(c);
    let mem = m.bus().memory();
    let size = ["0", "16", "32", "48", "64"][c.stack as usize % 5];
    let mut text = format!("#! mrasm\n*STACKSIZE {}\n*PROGRAMSIZE {}\n", size, c.limit);
    for chunk in mem.chunks(16) {
        text.push_str(" .DB ");
        text.push_str(&chunk.iter().map(|b| b.to_string()).collect::<Vec<_>>().join(","));
        text.push('\n');
    }
    let asm = emulator_2a_lib::parser::AsmParser::parse(&text).ok()?;
    Some(emulator_2a_lib::compiler::Translator::compile(&asm))
}

pub enum RefEnd {
    Boundary(usize),
    Halted(usize),
    /// no boundary within the cap and the machine state is a fixed point of the clock edge
    FixedPoint,
    /// no boundary within the cap, no fixed point established
    Unknown,
}

/// Reference stepping, from the statement: from a boundary exactly one whole instruction, from the
/// middle of an instruction the rest of it; a halt ends the step early.
pub fn ref_step(t: &mut RawMachine) -> RefEnd {
    let cap = 100_000usize;
    let mut n = 0usize;
    if t.state() != State::Running {
        return RefEnd::Halted(0);
    }
    while t.is_instruction_done() && t.state() == State::Running {
        t.trigger_clock_edge();
        n += 1;
        if n > cap {
            break;
        }
    }
    while !t.is_instruction_done() && t.state() == State::Running {
        t.trigger_clock_edge();
        n += 1;
        if n > cap {
            break;
        }
        if n == 3000 || n == 30_000 {
            let b = t.clone();
            t.trigger_clock_edge();
            if *t == b {
                return RefEnd::FixedPoint;
            }
            n += 1;
        }
    }
    if t.state() != State::Running {
        RefEnd::Halted(n)
    } else if t.is_instruction_done() {
        RefEnd::Boundary(n)
    } else {
        let b = t.clone();
        t.trigger_clock_edge();
        if *t == b {
            RefEnd::FixedPoint
        } else {
            RefEnd::Unknown
        }
    }
}

/// Assembly-mode step on the machine under test.  When the reference says the instruction can
/// never complete (fixed point), the step is run on a helper thread: not returning within 10 s is
/// then a violation of "a step always returns" (fixed-point argument, not the clock, decides).
fn asm_step_guarded(m: &mut Machine, critical: bool) -> Result<(), (String, String)> {
    if critical && HANG_SEEN.load(Ordering::SeqCst) {
        return Err(("c11:step-does-not-return".into(), "Assembly-mode step on an instruction that never completes did not return (seen earlier in this run)".into()));
    }
    if !critical || GUARDED_LEFT.fetch_sub(1, Ordering::SeqCst) <= 0 {
        m.trigger_key_clock();
        return Ok(());
    }
    let mut copy = m.clone();
    let (tx, rx) = std::sync::mpsc::channel();
    std::thread::Builder::new()
        .stack_size(256 * 1024)
        .spawn(move || {
            copy.trigger_key_clock();
            let _ = tx.send(copy);
        })
        .expect("spawn");
    match rx.recv_timeout(std::time::Duration::from_secs(10)) {
        Ok(done) => {
            *m = done;
            Ok(())
        }
        Err(_) => {
            HANG_SEEN.store(true, Ordering::SeqCst);
            Err((
                "c11:step-does-not-return".into(),
                "Assembly-mode step did not return within 10 s although the clock-edge state is a fixed point (no boundary can ever be reached): the step never returns".into(),
            ))
        }
    }
}

pub struct StepStats {
    pub steps: u64,
    pub mid_instruction: u64,
    pub with_wait_or_int: u64,
    pub from_halt: u64,
    pub fixed_points: u64,
    pub model_checked: u64,
}

pub fn check_steps(c: &StepCase) -> (Verdict, StepStats) {
    let mut st = StepStats { steps: 0, mid_instruction: 0, with_wait_or_int: 0, from_halt: 0, fixed_points: 0, model_checked: 0 };
    let mut m = build(c);
    let mut t = m.clone();
    macro_rules! fail {
        ($s:expr, $d:expr) => {
            return (Verdict::Fail($s.to_string(), $d), st)
        };
    }
    let mut inputs_dirty = false;
    // the step mode as the caller (this harness) last set it: nothing else may change it
    let mut mode = m.step_mode();
    for (i, op) in c.ops.iter().enumerate() {
        if matches!(op, Op::Edges(_) | Op::CpuReset | Op::MasterReset | Op::Reload) {
            inputs_dirty = false;
        }
        match op {
            Op::Edges(n) => {
                if mode != StepMode::Real {
                    m.set_step_mode(StepMode::Real);
                    mode = StepMode::Real;
                }
                for _ in 0..*n {
                    m.trigger_key_clock();
                    t.raw_mut().trigger_clock_edge();
                }
            }
            Op::AsmStep | Op::AsmSteps(_) => {
                let k = if let Op::AsmSteps(k) = op { *k } else { 1 };
                for _ in 0..k {
                    st.steps += 1;
                    let snap = t.verif_snapshot();
                    let at_boundary = t.is_instruction_done();
                    if t.state() != State::Running {
                        st.from_halt += 1;
                    } else if !at_boundary {
                        st.mid_instruction += 1;
                    }
                    if snap.pending_wait_for_memory || snap.pending_edge_interrupt {
                        st.with_wait_or_int += 1;
                    }
                    // instruction-level cross-check from a clean boundary: exactly one instruction
                    // (an opcode fetched from an input register is already latched at a boundary: no model
                    // cross-check right after an input change)
                    // (the interrupt status register 0xF9 is also left out: the library clears status bits when the
                    // byte 0x2C is loaded into the IR, whose timing the instruction-level model does not describe)
                    let model = if at_boundary && t.state() == State::Running && !snap.pending_edge_interrupt && !inputs_dirty && t.bus().read(0xF9) == 0 {
                        Some(model_from_machine(&t))
                    } else {
                        None
                    };
                    let before = t.clone();
                    let end = ref_step(t.raw_mut());
                    let critical = matches!(end, RefEnd::FixedPoint | RefEnd::Unknown);
                    if let RefEnd::FixedPoint = end {
                        st.fixed_points += 1;
                    }
                    if let RefEnd::Unknown = end {
                        // cannot establish the reference; resynchronise and stop this case (inconclusive part)
                        return (Verdict::Pass, st);
                    }
                    inputs_dirty = false;
                    if mode != StepMode::Assembly {
                        m.set_step_mode(StepMode::Assembly);
                        mode = StepMode::Assembly;
                    }
                    if let Err((s, d)) = asm_step_guarded(&mut m, critical) {
                        fail!(s, format!("op #{} {:?}: {}", i, op, d));
                    }
                    if *m != *t {
                        let (sm, stt) = (m.verif_snapshot(), t.verif_snapshot());
                        let what = match end {
                            RefEnd::Boundary(n) => format!("reference: {} edges to the next boundary", n),
                            RefEnd::Halted(n) => format!("reference: halted after {} edges", n),
                            RefEnd::FixedPoint => "reference: no boundary reachable (fixed point)".to_string(),
                            RefEnd::Unknown => unreachable!(),
                        };
                        let sig = if critical {
                            "c11:step-differs:never-completing"
                        } else if before.state() != State::Running {
                            "c11:step-differs:from-halt"
                        } else if at_boundary {
                            "c11:step-differs:from-boundary"
                        } else {
                            "c11:step-differs:mid-instruction"
                        };
                        fail!(
                            sig,
                            format!(
                                "op #{} {:?}: Assembly step differs from single edges ({}); after step: micro-address {:03X} vs {:03X}, PC {:02X} vs {:02X}, state {:?} vs {:?}",
                                i, op, what, sm.micro_address, stt.micro_address, m.registers().content()[3], t.registers().content()[3], m.state(), t.state()
                            )
                        );
                    }
                    if let (Some(mut r), RefEnd::Boundary(_)) = (model, &end) {
                        let up = upcoming(&r);
                        if is_emittable(&up) && r.step() == Outcome::Done && r.sp < 0xF0 {
                            st.model_checked += 1;
                            let d = diff_state(&m, &r);
                            // supervision may be on in this case: only judge when the machine kept running
                            if m.state() == State::Running && !d.is_empty() {
                                fail!("c11:not-exactly-one-instruction", format!("op #{}: a step from a boundary did not execute exactly the instruction {} : {:?}", i, group_name(&up), d));
                            }
                        }
                    }
                }
            }
            Op::KeyInt => {
                m.trigger_key_interrupt();
                t.trigger_key_interrupt();
            }
            Op::Continue => {
                m.trigger_key_continue();
                t.trigger_key_continue();
            }
            Op::CpuReset => {
                m.cpu_reset();
                t.cpu_reset();
            }
            Op::MasterReset => {
                m.master_reset();
                t.master_reset();
            }
            Op::Reload => {
                if let Some(bc) = reload_bytecode(c) {
                    m.load(bc.clone());
                    t.load(bc);
                }
            }
            Op::Input(i, v) => {
                inputs_dirty = true;
                for x in [&mut m, &mut t] {
                    match i {
                        0 => x.set_input_fc(*v),
                        1 => x.set_input_fd(*v),
                        2 => x.set_input_fe(*v),
                        _ => x.set_input_ff(*v),
                    }
                }
            }
        }
        if *m != *t {
            fail!("c11:machines-diverged", format!("after op #{} {:?} the mode-switching machine and the raw-edge twin differ", i, op));
        }
        if m.step_mode() != mode {
            fail!("c11:step-mode-changed-behind-the-caller", format!("after op #{} {:?} the machine is in {:?} step mode although {:?} was set last", i, op, m.step_mode(), mode));
        }
    }
    (Verdict::Pass, st)
}

pub fn run(ctx: &Ctx) -> Evidence {
    let mut ev = Evidence::new(
        "exploration",
        "histories of raw edges, Assembly steps, mode switches, key interrupts, continue, CPU reset over proptest-generated programs (opcode-biased, raw bytes, all 5 stack sizes, PC limits); each Assembly step is compared with reference stepping by single edges on a twin (whole RawMachine equality) and, from clean boundaries, with the instruction-level model; termination enumerated over all 256 opcode bytes at PC in 3 phases; non-trivial = step issued mid-instruction or with a memory wait / interrupt pending or on a never-completing opcode; distinct by hash of (case, op index)",
    );
    ev.assumptions.push("reference stepping (props/c11.rs ref_step) is written from the property statement".into());
    if let Some(path) = &ctx.replay {
        let doc: serde_json::Value = serde_json::from_str(&std::fs::read_to_string(path).expect("replay")).expect("json");
        let c: StepCase = serde_json::from_value(doc["case"].clone()).expect("case");
        ev.evaluations = 1;
        if let (Verdict::Fail(s, d), _) = check_steps(&c) {
            ev.violation("steps", &s, d, doc["case"].clone());
        }
        return ev;
    }
    let known: Vec<String> = load_known("C11").into_iter().map(|k| k.signature).collect();

    // termination + equivalence for every opcode byte at PC, stepped from three phases
    let mut enumerated = vec![];
    for b in 0..=255u8 {
        for pre in 0..3u8 {
            let ops = match pre {
                0 => vec![Op::AsmStep, Op::AsmStep, Op::AsmStep],
                1 => vec![Op::Edges(1), Op::AsmStep, Op::AsmStep],
                _ => vec![Op::Edges(4), Op::AsmStep, Op::KeyInt, Op::AsmStep],
            };
            enumerated.push(StepCase { prog: vec![Tm::Raw(b), Tm::Raw(0x11), Tm::Raw(0x44)], fill: Fill::Nops, inp: [2, 2, 2, 2], stack: 0, limit: 255, int_prelude: false, ops });
        }
    }
    let mut fixed_points = 0;
    for (i, c) in enumerated.iter().enumerate() {
        let (v, st) = catch(|| check_steps(c)).unwrap_or_else(|p| (Verdict::Fail(panic_signature(&p), p), StepStats { steps: 0, mid_instruction: 0, with_wait_or_int: 0, from_halt: 0, fixed_points: 0, model_checked: 0 }));
        ev.evaluations += 1;
        fixed_points += st.fixed_points;
        if st.fixed_points > 0 || st.mid_instruction > 0 {
            ev.nontrivial(&(0xE11u32, i));
        }
        if let Verdict::Fail(s, d) = v {
            ev.violation("steps", &s, d, serde_json::to_value(c).unwrap());
        }
    }
    ev.class("enumerated:opcode-byte-x-phase", enumerated.len() as u64);
    ev.class("enumerated:steps-on-never-completing-opcodes", fixed_points);
    ev.sample(json!({"part": "enumerated", "case": serde_json::to_value(&enumerated[0x4C * 3 + 1]).unwrap()}));

    let n: u64 = ctx.tier.pick(400_000, 10_000_000);
    let collected = std::sync::Mutex::new(Evidence::new("", ""));
    let res = par_search(ctx.threads, 32, ctx.seed, n, step_strategy, &known, |c, first, _| {
        let (v, st) = check_steps(c);
        if first {
            let mut e = collected.lock().unwrap();
            e.evaluations += 1;
            *e.classes.entry("assembly-steps".into()).or_insert(0) += st.steps;
            *e.classes.entry("steps:mid-instruction".into()).or_insert(0) += st.mid_instruction;
            *e.classes.entry("steps:wait-or-interrupt-pending".into()).or_insert(0) += st.with_wait_or_int;
            *e.classes.entry("steps:from-halt".into()).or_insert(0) += st.from_halt;
            *e.classes.entry("steps:never-completing(fixed point)".into()).or_insert(0) += st.fixed_points;
            *e.classes.entry("steps:cross-checked-with-isa-model".into()).or_insert(0) += st.model_checked;
            if st.mid_instruction + st.with_wait_or_int + st.fixed_points > 0 {
                e.nontrivial(&serde_json::to_string(c).unwrap());
            }
            if e.samples.len() < 4 && st.mid_instruction > 2 {
                let s = json!({"part": "random", "program_bytes": hex(&assemble(&c.prog)), "ops": format!("{:?}", c.ops), "stack_index": c.stack, "limit": c.limit});
                e.samples.push(s);
            }
        }
        v
    });
    for r in res {
        if let Some((c, s, d)) = r.failure {
            ev.violation("steps", &s, d, serde_json::to_value(&c).unwrap());
        }
        for (c, s, d) in r.tolerated {
            ev.violation("steps", &s, d, serde_json::to_value(&c).unwrap());
        }
    }
    ev.merge(collected.into_inner().unwrap());
    ev
}
