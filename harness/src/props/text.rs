//! Text side: C02 (assembler output), C03 (parser), C06 (accepted => compiles and loads),
//! C16 (format round trip).  All cases are source texts; replay files carry the text.
use crate::engine::*;
use crate::refasm;
use crate::refparse::{self, RefErr};
use crate::textgen::*;
use emulator_2a_lib::compiler::Translator;
use emulator_2a_lib::machine::{Machine, MachineConfig};
use emulator_2a_lib::parser::*;
use proptest::prelude::*;
use serde_json::json;

#[derive(Clone, Copy, PartialEq, Eq, Debug)]
pub enum Which {
    C02,
    C03,
    C06,
    C16,
}

fn verdict_impl(r: &Result<Asm, ParserError>) -> &'static str {
    match r {
        Ok(_) => "accept",
        Err(ParserError::InvalidSyntax(_)) => "syntax-error",
        Err(ParserError::UndefinedLabels(_)) => "undefined-labels",
        Err(ParserError::TooManyLabels) => "too-many-labels",
    }
}
fn verdict_ref(r: &Result<Asm, RefErr>) -> &'static str {
    match r {
        Ok(_) => "accept",
        Err(RefErr::Syntax(..)) => "syntax-error",
        Err(RefErr::Undefined(_)) => "undefined-labels",
        Err(RefErr::TooManyLabels) => "too-many-labels",
    }
}

fn first_diff(a: &Asm, b: &Asm) -> String {
    if a.comment_after_shebang != b.comment_after_shebang {
        return format!("header comment {:?} vs {:?}", a.comment_after_shebang, b.comment_after_shebang);
    }
    for (i, (x, y)) in a.lines.iter().zip(&b.lines).enumerate() {
        if x != y {
            return format!("line {}: parser {:?} vs expected {:?}", i + 1, x, y);
        }
    }
    format!("{} lines vs {} lines", a.lines.len(), b.lines.len())
}

fn short(s: &str) -> String {
    let v: String = s.chars().take(300).collect();
    format!("{:?}", v)
}

// ---------------------------------------------------------------------------------------------
// C03

/// differential check of one text; `expected` = the AST the text was rendered from (valid by construction)
pub fn check_parse(text: &str, expected: Option<&Asm>) -> Verdict {
    let rp = refparse::parse(text);
    if let Some(exp) = expected {
        if rp.as_ref().ok() != Some(exp) {
            // the generator and the reference recogniser disagree: a harness defect, never a finding
            return Verdict::Fail("HARNESS:generator-vs-reference".into(), format!("{} -> reference {:?}", short(text), rp.as_ref().map(|a| first_diff(a, exp))));
        }
    }
    let ip = match catch(|| AsmParser::parse(text)) {
        Ok(r) => r,
        Err(p) => return Verdict::Fail(format!("parser:{}", panic_signature(&p)), format!("parser panicked on {}: {}", short(text), p)),
    };
    let (vi, vr) = (verdict_impl(&ip), verdict_ref(&rp));
    if vi != vr {
        let sig = if expected.is_some() { format!("parser:valid-program-{}", vi) } else { format!("parser:verdict:{}-but-language-says-{}", vi, vr) };
        return Verdict::Fail(sig, format!("{}: parser says {}, the language definition says {} ({})", short(text), vi, vr, match &ip { Err(e) => e.to_string().chars().take(200).collect::<String>(), Ok(_) => String::new() }));
    }
    if let (Ok(a), Ok(b)) = (&ip, &rp) {
        if a != b {
            return Verdict::Fail("parser:ast-mismatch".into(), format!("{}: {}", short(text), first_diff(a, b)));
        }
    }
    Verdict::Pass
}

/// hand-written boundary texts with the verdict the language definition prescribes
fn boundary_texts() -> Vec<(String, &'static str)> {
    let h = "#! mrasm\n";
    let mut v: Vec<(String, &'static str)> = vec![
        (format!("{}LD R0, 255", h), "accept"),
        (format!("{}LD R0, 256", h), "syntax-error"),
        (format!("{}LD R0, 0255", h), "accept"),
        (format!("{}LD R0, 0000000000000255", h), "accept"),
        (format!("{}LD R0, 0xFF", h), "accept"),
        (format!("{}LD R0, 0xff", h), "accept"),
        (format!("{}LD R0, 0x100", h), "syntax-error"),
        (format!("{}LD R0, 0x0FF", h), "accept"),
        (format!("{}LD R0, 0XFF", h), "syntax-error"),
        (format!("{}LD R0, 0b11111111", h), "accept"),
        (format!("{}LD R0, 0b111111111", h), "syntax-error"),
        (format!("{}LD R0, 0b011111111", h), "accept"),
        (format!("{}LD R0, 0B1", h), "syntax-error"),
        (format!("{}.DW 65535", h), "accept"),
        (format!("{}.DW 65536", h), "syntax-error"),
        (format!("{}.DW 0xFFFF, 0x10000", h), "syntax-error"),
        (format!("{}.DW 0b1111111111111111", h), "accept"),
        (format!("{}.DW 0b11111111111111111", h), "syntax-error"),
        (format!("{}.DB 255,256", h), "syntax-error"),
        (format!("{}.EQU x 255", h), "accept"),
        (format!("{}.EQU x 0xFF", h), "syntax-error"),
        (format!("{}.EQU x, 5", h), "syntax-error"),
        (format!("{}ld r0,r1", h), "syntax-error"),
        (format!("{}mov r0,r1", h), "accept"),
        (format!("{}MOV R0 ,R1", h), "syntax-error"),
        (format!("{}MOV R0,  R1", h), "accept"),
        (format!("{}MOV PC, R1", h), "accept"),
        (format!("{}MOV pc, R1", h), "syntax-error"),
        (format!("{}MOV (R0+), ((R1+))", h), "accept"),
        (format!("{}MOV ( R0), R1", h), "syntax-error"),
        (format!("{}MOV R4, R1", h), "syntax-error"),
        (format!("{}JR loop\nLOOP:", h), "accept"),
        (format!("{}JR nowhere", h), "undefined-labels"),
        (format!("{}Rx:", h), "syntax-error"),
        (format!("{}pcx:", h), "syntax-error"),
        (format!("{}Spam:", h), "syntax-error"),
        (format!("{}L: NOP", h), "syntax-error"),
        (format!("{}NOP NOP", h), "syntax-error"),
        (format!("{}NOP ; x", h), "accept"),
        ("#! mrasm".to_string(), "accept"),
        ("#! mrasm ; c".to_string(), "accept"),
        ("#! mrasm  ; c".to_string(), "syntax-error"),
        ("#!mrasm\n".to_string(), "syntax-error"),
        (" #! mrasm\n".to_string(), "syntax-error"),
        ("".to_string(), "syntax-error"),
        ("NOP".to_string(), "syntax-error"),
        (format!("{}*STACKSIZE 17", h), "syntax-error"),
        (format!("{}*STACKSIZE noset", h), "accept"),
        (format!("{}*STACKSIZE 016", h), "syntax-error"),
        (format!("{}*STACKSIZE 00", h), "syntax-error"),
        (format!("{}*STACKSIZE 064", h), "syntax-error"),
        (format!("{}*STACKSIZE 0", h), "accept"),
        (format!("{}*STACKSIZE 160", h), "syntax-error"),
        (format!("{}*PROGRAMSIZE 007", h), "accept"),
        (format!("{}*PROGRAMSIZE 0256", h), "syntax-error"),
        (format!("{}*PROGRAMSIZE 255", h), "accept"),
        (format!("{}*PROGRAMSIZE 256", h), "syntax-error"),
        (format!("{}.EQU x 007", h), "accept"),
        (format!("{}.ORG 007\n.BYTE 00", h), "accept"),
        (format!("{}*PROGRAMSIZE 0x10", h), "syntax-error"),
        (format!("{}*PROGRAMSIZE auto", h), "accept"),
        (format!("{}STOP\r\nSTOP\rSTOP\n", h), "accept"),
    ];
    for n in [39usize, 40, 41] {
        let mut t = String::from(h);
        for k in 0..n {
            t += &format!("L{}:\n", k);
        }
        v.push((t, if n <= 40 { "accept" } else { "too-many-labels" }));
    }
    // 41 definitions and an undefined reference: the label count is reported first
    let mut t = String::from(h);
    for k in 0..41 {
        t += &format!("L{}:\n", k);
    }
    t += "JR nowhere";
    v.push((t, "too-many-labels"));
    v
}

/// Programs whose *number of lines* crosses the powers of two an implementation may count in
/// (u8 / u16 line or entry counters), while the image stays tiny or grows with the lines: n lines of
/// one kind, followed by a label definition and references to it.
pub fn long_texts(thorough: bool) -> Vec<String> {
    let kinds = ["", " ; c", "\tNOP", ".ORG 0", "*STACKSIZE 32", ".DB 7", " .EQU k 5", "X:"];
    let mut sizes: Vec<usize> = vec![1, 2, 126, 127, 128, 129, 253, 254, 255, 256, 257, 258, 511, 512, 513, 1023, 1024, 1025, 1536, 1800, 2047, 2048, 2049, 3000, 4095, 4096, 4097];
    let big: Vec<usize> = if thorough { vec![32767, 32768, 32769, 65533, 65534, 65535, 65536, 65537, 65538, 131073] } else { vec![65534, 65535, 65536, 65537] };
    let mut v = vec![];
    for (ki, k) in kinds.iter().enumerate() {
        sizes.retain(|n| *n <= 4097);
        if ki < 2 || thorough {
            sizes.extend(big.iter().cloned());
        }
        for n in &sizes {
            let mut t = String::with_capacity(n * (k.len() + 1) + 64);
            t.push_str("#! mrasm");
            for _ in 0..*n {
                t.push('\n');
                t.push_str(k);
            }
            t.push_str("\nL:\n JR l\n LD R0, L\n ST (L), R1");
            v.push(t);
        }
    }
    v
}

/// Programs whose image ends exactly at, just below or just above the end of the RAM (238..=241
/// bytes), built in six different ways, followed by every kind of line that emits no bytes
/// (label, settings, .EQU, `.BYTE 0`, `.ORG` to the same address, comment) and optionally referring
/// to a name that is only defined behind the last byte.
pub fn exact_fit_texts() -> Vec<String> {
    let mut v = vec![];
    for n in [238usize, 239, 240, 241] {
        for prefix in ["", " LD R0, L\n", " LD R1, K\n JR L\n"] {
            let used = match prefix {
                "" => 0,
                " LD R0, L\n" => 3,
                _ => 5,
            };
            let rest = n - used;
            let fills: Vec<String> = vec![
                format!(".ORG {}", n),
                format!(".BYTE {}", rest),
                vec!["NOP"; rest].join("\n"),
                (0..rest).collect::<Vec<_>>().chunks(16).map(|c| format!(".DB {}", c.iter().map(|b| (b % 256).to_string()).collect::<Vec<_>>().join(", "))).collect::<Vec<_>>().join("\n"),
                format!(".DW {}{}", vec!["0x1234"; rest / 2].join(","), if rest % 2 == 1 { "\n.DB 9" } else { "" }),
                format!(".ORG {}\n LD R2, 7", n - 3),
            ];
            for fill in &fills {
                for tail in ["", "L:", "L:\nM:", "*STACKSIZE 32", "*PROGRAMSIZE 7", ".BYTE 0", "  ; c", ".DB 1", "SAME-ORG", "L:\n*STACKSIZE 64\n*PROGRAMSIZE 9", "*STACKSIZE 0", "*stacksize 48\n*STACKSIZE NOSET", "*PROGRAMSIZE AUTO", "*PROGRAMSIZE NOSET\n*STACKSIZE 16", "*PROGRAMSIZE 255\n*STACKSIZE 0"] {
                    let tail = if tail == "SAME-ORG" {
                        if n > 255 {
                            continue;
                        }
                        format!(".ORG {}", n)
                    } else {
                        tail.to_string()
                    };
                    // every referenced name gets a definition: in the tail if it is there, else up front
                    let mut t = String::from("#! mrasm\n");
                    // settings in front of the image as well, for one fill in three
                    match (n + fill.len() + tail.len()) % 3 {
                        0 => t.push_str("*STACKSIZE 0\n"),
                        1 => t.push_str("*STACKSIZE 64\n*PROGRAMSIZE 0\n"),
                        _ => {}
                    }
                    let defines_l = tail.starts_with("L:");
                    t.push_str(".EQU K 5\n");
                    if !defines_l && prefix.contains(" L\n") {
                        t.push_str(".EQU L 7\n");
                    }
                    t.push_str(prefix);
                    t.push_str(fill);
                    if !tail.is_empty() {
                        t.push('\n');
                        t.push_str(&tail);
                    }
                    v.push(t);
                }
            }
        }
    }
    v
}

/// Programs that use 38..=41 definitions (labels, .EQU names, mixed, with and without a repeated
/// name) and refer to the first, a middle and the *last* defined name in every reference form.
pub fn label_budget_texts() -> Vec<String> {
    let mut v = vec![];
    for n in [38usize, 39, 40, 41] {
        for kind in 0..4 {
            for dup in [false, true] {
                for refs in 0..3 {
                    let mut t = String::from("#! mrasm\n");
                    let name = |k: usize| format!("N{}x", k);
                    let targets = [0usize, n / 2, n - 1];
                    let tgt = name(targets[refs]);
                    // references first (forward), in several forms and another letter case
                    t.push_str(&format!(" JMP {}\n LD R0, {}\n ST ({}), R1\n MOV ({}), {}\n CALL {}\n", tgt, tgt.to_lowercase(), tgt, tgt, tgt.to_lowercase(), tgt));
                    for k in 0..n {
                        let is_equ = match kind {
                            0 => false,
                            1 => true,
                            2 => k % 2 == 0,
                            _ => k == n - 1,
                        };
                        if is_equ {
                            t.push_str(&format!(".EQU {} {}\n", name(k), (k * 3) % 256));
                        } else {
                            t.push_str(&format!("{}:\n NOP\n", name(k)));
                        }
                    }
                    if dup {
                        // one more definition line of an existing name with the same value semantics left open
                        t.push_str(&format!("{}:\n", name(1).to_lowercase()));
                    }
                    t.push_str(&format!(" JR {}\n", tgt));
                    v.push(t);
                }
            }
        }
    }
    v
}

// ---------------------------------------------------------------------------------------------
// C02

/// all machine-instruction forms x operand shapes x registers (constants fixed, one label name)
pub fn all_shapes() -> Vec<Instruction> {
    use Instruction::*;
    let regs = [Register::R0, Register::R1, Register::R2, Register::R3];
    let ks = [Constant::Constant(0x5A), Constant::Label("Lbl".into())];
    let mut srcs: Vec<Source> = vec![];
    let mut dsts: Vec<Destination> = vec![];
    for r in regs {
        srcs.push(Source::Register(r));
        srcs.push(Source::MemAddress(MemAddress::Register(r)));
        srcs.push(Source::RegisterDi(RegisterDi(r)));
        srcs.push(Source::RegisterDdi(RegisterDdi(r)));
        dsts.push(Destination::Register(r));
        dsts.push(Destination::MemAddress(MemAddress::Register(r)));
        dsts.push(Destination::RegisterDi(RegisterDi(r)));
        dsts.push(Destination::RegisterDdi(RegisterDdi(r)));
    }
    for k in &ks {
        srcs.push(Source::Constant(k.clone()));
        srcs.push(Source::MemAddress(MemAddress::Constant(k.clone())));
        dsts.push(Destination::MemAddress(MemAddress::Constant(k.clone())));
    }
    let mut v = vec![];
    for a in regs {
        for f in [Clr as fn(Register) -> Instruction, Inc, Neg, Com, Tst, Lsr, Asr, Lsl, Rrc, Rlc, Push, Pop] {
            v.push(f(a));
        }
        for b in regs {
            for f in [Add as fn(Register, Register) -> Instruction, Adc, Sub, Mul, Div, And, Or, Xor] {
                v.push(f(a, b));
            }
        }
        for k in &ks {
            v.push(LdConstant(a, k.clone()));
            v.push(LdMemAddress(a, MemAddress::Constant(k.clone())));
            v.push(St(MemAddress::Constant(k.clone()), a));
        }
        for b in regs {
            v.push(LdMemAddress(a, MemAddress::Register(b)));
            v.push(St(MemAddress::Register(b), a));
        }
    }
    for s in &srcs {
        v.push(Dec(s.clone()));
        v.push(Ldsp(s.clone()));
        v.push(Ldfr(s.clone()));
        for d in &dsts {
            for f in [Bits as fn(Destination, Source) -> Instruction, Bitc, Cmp, Bitt, Mov] {
                v.push(f(d.clone(), s.clone()));
            }
        }
    }
    for f in [Jmp as fn(String) -> Instruction, Jcs, Jcc, Jzs, Jzc, Jns, Jnc, Jr, Call] {
        v.push(f("Lbl".into()));
        v.push(f("lBL".into()));
    }
    v.extend([PushF, PopF, Ret, RetI, Stop, Nop, Ei, Di]);
    v
}

/// compile and compare with the reference assembler
pub fn check_assemble(text: &str) -> Verdict {
    let asm = match catch(|| AsmParser::parse(text)) {
        Ok(Ok(a)) => a,
        Ok(Err(_)) => return Verdict::Pass, // not an accepted program: not C02's subject
        Err(p) => return Verdict::Fail(format!("parser:{}", panic_signature(&p)), p),
    };
    let img = match refasm::assemble(&asm) {
        Ok(i) => i,
        Err(_) => return Verdict::Pass, // outside the documented domain (backward .ORG, > 240 bytes)
    };
    let bc = match catch(|| Translator::compile(&asm)) {
        Ok(b) => b,
        Err(p) => return Verdict::Fail(format!("asm:{}", panic_signature(&p)), format!("translator panicked on {}: {}", short(text), p)),
    };
    if bc.lines.len() != asm.lines.len() {
        return Verdict::Fail("asm:line-count".into(), format!("{}: {} lines reported for {} source lines", short(text), bc.lines.len(), asm.lines.len()));
    }
    for (i, ((l, b), (rb, al))) in bc.lines.iter().zip(img.lines.iter().zip(&asm.lines)).enumerate() {
        if l != al {
            return Verdict::Fail("asm:line-identity".into(), format!("{}: line {} reported as {:?}, source line is {:?}", short(text), i + 1, l, al));
        }
        // bytes that refer to a name defined twice with different values are not constrained
        let differs = b.len() != rb.len() || b.iter().zip(rb).zip(&img.mask[i]).any(|((x, y), constrained)| *constrained && x != y);
        if differs {
            let kind = match al {
                Line::Instruction(ins, _) => {
                    let s = format!("{:?}", ins);
                    s.split(|c: char| !c.is_alphanumeric()).next().unwrap_or("").to_string()
                }
                _ => "nonInstruction".into(),
            };
            return Verdict::Fail(format!("asm:bytes:{}", kind), format!("{}: line {} `{}` assembled to {:02X?}, reference encoding {:02X?}", short(text), i + 1, al, b, rb));
        }
    }
    if bc.stacksize != img.stacksize || bc.programsize != img.programsize {
        return Verdict::Fail("asm:limits".into(), format!("{}: limits {:?}/{:?}, expected {:?}/{:?}", short(text), bc.stacksize, bc.programsize, img.stacksize, img.programsize));
    }
    let flat: Vec<u8> = bc.bytes().cloned().collect();
    let rflat: Vec<u8> = img.lines.iter().flatten().cloned().collect();
    let mflat: Vec<bool> = img.mask.iter().flatten().cloned().collect();
    if flat.len() != rflat.len() || flat.iter().zip(&rflat).zip(&mflat).any(|((x, y), c)| *c && x != y) {
        return Verdict::Fail("asm:image".into(), format!("{}: image differs", short(text)));
    }
    Verdict::Pass
}

// ---------------------------------------------------------------------------------------------
// C06

pub fn check_compile_load(text: &str) -> (Verdict, bool) {
    let asm = match catch(|| AsmParser::parse(text)) {
        Ok(Ok(a)) => a,
        Ok(Err(_)) => return (Verdict::Pass, false),
        Err(p) => return (Verdict::Fail(format!("parser:{}", panic_signature(&p)), p), false),
    };
    // the property quantifies over what the *parser* accepts: whether the reference recogniser agrees
    // is C03's business and plays no role here
    let r = catch(|| {
        let bc = Translator::compile(&asm);
        let mut m = Machine::new(MachineConfig::default());
        m.load(bc.clone());
        let m2 = Machine::new_with_program(MachineConfig::default(), bc.clone());
        let listing = format!("{}", bc);
        // "loaded into a machine": also one that ran other programs before (limits of every kind left behind)
        let mut states = vec![];
        for used in used_machines() {
            let mut u = used.clone();
            u.load(bc.clone());
            states.push(u.state());
            // and once more on top of itself
            u.load(bc.clone());
        }
        (m.state(), m2.state(), listing.len(), states)
    });
    match r {
        Ok(_) => (Verdict::Pass, true),
        Err(p) => {
            // the signature carries the layout shape of the program, so that a listed finding (keyed on
            // panic site + shape) never hides a crash of a program without that shape
            let (backward, size) = refasm::layout_flags(&asm);
            let shape = match (backward, size > 240) {
                (false, false) => "ok",
                (true, false) => "backward-org",
                (false, true) => "image>240",
                (true, true) => "backward-org+image>240",
            };
            (Verdict::Fail(format!("{}:shape={}", panic_signature(&p), shape), format!("accepted program {} crashes compile/load: {}", short(text), p)), true)
        }
    }
}

/// machines with a history: programs of several sizes with explicit, AUTO and NOSET limits loaded and run
fn used_machines() -> &'static Vec<Machine> {
    static M: std::sync::OnceLock<Vec<Machine>> = std::sync::OnceLock::new();
    M.get_or_init(|| {
        let progs = [
            "#! mrasm\n*STACKSIZE 32\nL:\n INC R0\n ST (0xFF), R0\n JR L\n",
            "#! mrasm\n*PROGRAMSIZE 200\n*STACKSIZE 0\n LDSP 0xEF\n.ORG 100\n NOP\n STOP\n",
            "#! mrasm\n*PROGRAMSIZE 0\n*STACKSIZE 64\n NOP\n",
            "#! mrasm\n*STACKSIZE NOSET\n*PROGRAMSIZE NOSET\n.ORG 239\n STOP\n",
            "#! mrasm\n*PROGRAMSIZE 255\n.BYTE 240\n",
        ];
        let mut v = vec![];
        let mut chain = Machine::new(MachineConfig::default());
        for p in progs {
            let bc = Translator::compile(&AsmParser::parse(p).expect("fixed program"));
            let mut m = Machine::new(MachineConfig::default());
            m.load(bc.clone());
            for _ in 0..40 {
                m.trigger_key_clock();
            }
            v.push(m);
            // one machine that saw all of them in a row
            chain.load(bc);
            for _ in 0..25 {
                chain.trigger_key_clock();
            }
        }
        v.push(chain);
        v
    })
}

// ---------------------------------------------------------------------------------------------
// C16

pub fn check_roundtrip(text: &str) -> (Verdict, u64) {
    let asm = match catch(|| AsmParser::parse(text)) {
        Ok(Ok(a)) => a,
        Ok(Err(_)) => return (Verdict::Pass, 0),
        Err(p) => return (Verdict::Fail(format!("parser:{}", panic_signature(&p)), p), 0),
    };
    let mut lines_checked = 0;
    // (a) whole program
    let rendered = match catch(|| asm.to_string()) {
        Ok(s) => s,
        Err(p) => return (Verdict::Fail(format!("fmt:{}", panic_signature(&p)), p), 0),
    };
    match catch(|| AsmParser::parse(&rendered)) {
        Ok(Ok(a2)) => {
            if a2 != asm {
                let what = if a2.lines.len() != asm.lines.len() { "line-count" } else if a2.comment_after_shebang != asm.comment_after_shebang { "header" } else { "line" };
                return (Verdict::Fail(format!("fmt:program-roundtrip:{}", what), format!("{} renders as {} which parses differently: {}", short(text), short(&rendered), first_diff(&a2, &asm))), 0);
            }
        }
        Ok(Err(e)) => {
            return (Verdict::Fail("fmt:program-rendering-rejected".into(), format!("{} renders as {} which the parser rejects: {}", short(text), short(&rendered), e.to_string().chars().take(160).collect::<String>())), 0)
        }
        Err(p) => return (Verdict::Fail(format!("parser:{}", panic_signature(&p)), p), 0),
    }
    // (b) every line on its own (the form shown in the TUI program pane and in listings)
    for l in &asm.lines {
        let mut t = format!("#! mrasm\n{}", l);
        if let Line::Instruction(i, _) = l {
            let mut seen: Vec<String> = vec![];
            for n in names_of(i) {
                if !seen.iter().any(|s| s.eq_ignore_ascii_case(&n)) {
                    t += &format!("\n{}:", n);
                    seen.push(n);
                }
            }
        }
        lines_checked += 1;
        match catch(|| AsmParser::parse(&t)) {
            Ok(Ok(a)) if a.lines.first() == Some(l) => {}
            Ok(other) => {
                let kind = match l {
                    Line::Instruction(ins, _) => format!("{:?}", ins).split(|c: char| !c.is_alphanumeric()).next().unwrap_or("").to_string(),
                    Line::Label(..) => "Label".into(),
                    Line::Empty(_) => "Empty".into(),
                };
                return (Verdict::Fail(format!("fmt:line-roundtrip:{}", kind), format!("line {:?} renders as {} and parses back as {:?}", l, short(&t), other.map(|a| a.lines.first().cloned()).map_err(|e| e.to_string().chars().take(120).collect::<String>()))), lines_checked);
            }
            Err(p) => return (Verdict::Fail(format!("parser:{}", panic_signature(&p)), p), lines_checked),
        }
    }
    // (c) the program pane and the byte-code listing are built from the translator's line list
    // (ByteCode::lines): rendered line by line under the header it must parse back to the same
    // program.  A compile that panics is C06's subject (known findings), not judged here.
    if let Ok(bc) = catch(|| Translator::compile(&asm)) {
        let mut t = String::from("#! mrasm");
        for (l, _) in &bc.lines {
            t += &format!("\n{}", l);
        }
        match catch(|| AsmParser::parse(&t)) {
            Ok(Ok(a2)) => {
                if a2.lines != asm.lines {
                    return (Verdict::Fail("fmt:pane-roundtrip".into(), format!("{}: the program pane shows {} which parses back differently: {}", short(text), short(&t), first_diff(&a2, &asm))), lines_checked);
                }
            }
            Ok(Err(e)) => return (Verdict::Fail("fmt:pane-rendering-rejected".into(), format!("{}: the program pane shows {} which the parser rejects: {}", short(text), short(&t), e.to_string().chars().take(160).collect::<String>())), lines_checked),
            Err(p) => return (Verdict::Fail(format!("parser:{}", panic_signature(&p)), p), lines_checked),
        }
    }
    (Verdict::Pass, lines_checked)
}

// ---------------------------------------------------------------------------------------------
// generators of texts

#[derive(Clone, Debug)]
pub struct TextCase {
    pub text: String,
    pub expected: Option<Asm>,
    pub shape: Shape,
    pub class: &'static str,
}

fn valid_case(o: GenOpts) -> impl Strategy<Value = TextCase> {
    spec_strategy(o).prop_map(move |spec| {
        let (asm, shape) = build(&spec, &o);
        let text = render(&asm, spec.render_seed);
        // more than 40 definitions: the expected verdict is a rejection, checked differentially
        let defs = asm.lines.iter().filter(|l| matches!(l, Line::Label(..) | Line::Instruction(Instruction::AsmEquals(..), _))).count();
        if defs > 40 {
            return TextCase { text, expected: None, shape, class: "more-than-40-definitions" };
        }
        TextCase { text, expected: Some(asm), shape, class: "valid" }
    })
}

fn mutant_case(o: GenOpts) -> impl Strategy<Value = TextCase> {
    (spec_strategy(o), prop::collection::vec(mutation_strategy(), 1..3)).prop_map(move |(spec, ms)| {
        let (asm, shape) = build(&spec, &o);
        let mut text = render(&asm, spec.render_seed);
        for m in &ms {
            text = mutate(&text, m);
        }
        TextCase { text, expected: None, shape, class: "mutant" }
    })
}

fn arbitrary_case() -> impl Strategy<Value = TextCase> {
    prop_oneof![
        4 => soup_strategy().prop_map(|t| TextCase { text: t, expected: None, shape: Shape::default(), class: "soup" }),
        1 => any::<String>().prop_map(|t| TextCase { text: t, expected: None, shape: Shape::default(), class: "unicode" }),
        1 => ("#! mrasm\n", any::<String>()).prop_map(|(h, t)| TextCase { text: format!("{}{}", h, t), expected: None, shape: Shape::default(), class: "unicode" }),
        1 => prop::collection::vec(any::<u8>(), 0..200).prop_map(|b| TextCase { text: String::from_utf8_lossy(&b).to_string(), expected: None, shape: Shape::default(), class: "bytes" }),
        1 => "#! mrasm\n[ -~\n\t]{0,80}".prop_map(|t| TextCase { text: t, expected: None, shape: Shape::default(), class: "ascii" }),
    ]
}

fn text_case_json(c: &TextCase) -> serde_json::Value {
    json!({"text": c.text, "class": c.class})
}

pub const C06_OPTS: GenOpts = GenOpts { dec_any: true, mixed_case_refs: true, org_backward: true, max_image: 400, max_lines: 30, max_names: 40 };

pub fn run(ctx: &Ctx, which: Which) -> Evidence {
    let id = format!("{:?}", which);
    let rule = match which {
        Which::C03 => "texts: (a) AST-first generated programs rendered with random case/radix/leading zeros/blanks/tabs/line terminators/comments (valid by construction; the generated AST is the expected result), (b) 1-2 token-level mutations of (a), (c) token soups, arbitrary Unicode strings, lossily decoded bytes, printable ASCII; plus hand-written boundary texts; oracle = no panic + verdict/AST equal to a hand-written recogniser of the language; non-trivial = accepted program with >= 3 non-empty lines, or rejected input whose first line is a valid header; distinct by hash of the text",
        Which::C02 => "texts: every machine-instruction form x operand shape x register (enumerated) bare and after generated directive prefixes, plus AST-first random programs (image <= 240 bytes, forward .ORG, unique names, references in any letter case); oracle = two-pass reference assembler (per-line bytes, line identity, limits, image); non-trivial = program with a label reference after .ORG/.BYTE/.DB/.DW or a two-operand instruction with a non-register operand; distinct by hash of the text",
        Which::C06 => "texts: AST-first programs over the whole accepted language (DEC with all operand shapes, mixed-case references, backward/equal/forward .ORG, images 0..400 bytes, 0..40 names) + mutants that stay acceptable; oracle = parser accepts (reference agrees) => compile, load, new_with_program, listing do not panic (debug assertions on); non-trivial = accepted program with a mixed-case reference, DEC of a non-register, a second .ORG or an image > 128 bytes; distinct by hash of the text",
        Which::C16 => "texts: AST-first programs (every instruction form and operand shape, numeric values, comments with printable/Unicode content, labels 1-60 chars) and mutants; oracle = Asm::to_string() re-parses to the same Asm, and each Line::to_string() re-parses to the same line; non-trivial = accepted program with >= 1 comment and >= 1 memory/constant operand; distinct by hash of the text",
    };
    let mut ev = Evidence::new("exploration", rule);
    ev.assumptions.push("reference recogniser harness/src/refparse.rs implements DESIGN.md Appendix C; reference assembler harness/src/refasm.rs implements Appendix B".into());
    let check_text = |text: &str, expected: Option<&Asm>| -> Verdict {
        match which {
            Which::C03 => check_parse(text, expected),
            Which::C02 => check_assemble(text),
            Which::C06 => check_compile_load(text).0,
            Which::C16 => check_roundtrip(text).0,
        }
    };
    if let Some(path) = &ctx.replay {
        let doc: serde_json::Value = serde_json::from_str(&std::fs::read_to_string(path).expect("replay")).expect("json");
        let text = doc["case"]["text"].as_str().expect("text").to_string();
        ev.evaluations = 1;
        if let Verdict::Fail(s, d) = check_text(&text, None) {
            ev.violation("text", &s, d, doc["case"].clone());
        }
        return ev;
    }
    let known: Vec<String> = load_known(&id).into_iter().map(|k| k.signature).collect();
    let mut harness_errors = 0u64;

    // ---- enumerated parts
    if which == Which::C03 {
        for (t, exp) in boundary_texts() {
            ev.evaluations += 1;
            ev.nontrivial(&t);
            // the hand-written expectation checks the reference recogniser itself
            let rv = verdict_ref(&refparse::parse(&t));
            if rv != exp {
                harness_errors += 1;
                println!("HARNESS-ERROR reference recogniser says {} for {:?}, hand-written expectation {}", rv, t, exp);
                continue;
            }
            if let Verdict::Fail(s, d) = check_parse(&t, None) {
                ev.violation("text", &s, d, json!({"text": t, "class": "boundary"}));
            }
        }
        ev.class("enumerated:boundary-texts", boundary_texts().len() as u64);
        // every numeric value in every radix: all 65 536 words (+ the first values beyond), all bytes in
        // every constant context (+ beyond)
        let res = par_chunks(ctx.threads, 64, |k| {
            let mut out: Vec<(String, String, String)> = vec![];
            let mut n = 0u64;
            let mut chk = |t: String, out: &mut Vec<(String, String, String)>| {
                if let Verdict::Fail(s, d) = check_parse(&t, None) {
                    if out.len() < 3 {
                        out.push((t, s, d));
                    }
                }
            };
            for v in (k as u32..65600).step_by(64) {
                chk(format!("#! mrasm\n.DW {}, 0x{:x}, 0b{:b}\n.dw 0x{:X},0{},0x000{:x}", v, v, v, v, v, v), &mut out);
                n += 1;
            }
            for v in (k as u32..300).step_by(64) {
                for t in [
                    format!("#! mrasm\n.DB {}, 0x{:x}, 0b{:b}", v, v, v),
                    format!("#! mrasm\nLD R0, {}\nLD R1, 0x{:X}\nLD R2, 0b{:b}", v, v, v),
                    format!("#! mrasm\nST ({}), R0\nLD R1, (0x{:x})\nMOV (0b0{:b}), (00{})", v, v, v, v),
                    format!("#! mrasm\n.ORG {}", v),
                    format!("#! mrasm\n.ORG 0x{:x}", v),
                    format!("#! mrasm\n.BYTE 0b{:b}", v),
                    format!("#! mrasm\n.EQU k {}\n*PROGRAMSIZE {}", v, v),
                    format!("#! mrasm\nCMP R0, {}\nBITS (R1+), 0x{:02X}\nLDSP {}\nLDFR 0b{:08b}\nDEC ({})", v, v, v, v, v),
                ] {
                    chk(t, &mut out);
                    n += 1;
                }
            }
            (n, out)
        });
        let mut n_num = 0;
        for (n, out) in res {
            n_num += n;
            for (t, s, d) in out {
                ev.violation("text", &s, d, json!({"text": t, "class": "numeric-sweep"}));
            }
        }
        ev.evaluations += n_num;
        ev.class("enumerated:numeric-values-all-radices", n_num);
        for v in 0..65536u32 {
            ev.nontrivial(&(0xD3u8, v));
        }
    }
    if which == Which::C02 || which == Which::C16 || which == Which::C06 {
        let shapes = all_shapes();
        let prefixes: u64 = if which == Which::C02 { ctx.tier.pick(3, 50) } else { 0 };
        let res = par_chunks(ctx.threads, 64, |k| {
            let mut out = vec![];
            let mut n = 0u64;
            let mut r = rng_from_seed(mix(ctx.seed ^ (k as u64) << 20));
            for (si, ins) in shapes.iter().enumerate() {
                if si % 64 != k {
                    continue;
                }
                for p in 0..=prefixes {
                    let mut lines: Vec<Line> = vec![];
                    let mut seed = 0u64;
                    let mut label_first = false;
                    if p > 0 {
                        // generated directive prefix
                        use proptest::strategy::ValueTree;
                        let mut runner = proptest::test_runner::TestRunner::new_with_rng(proptest::test_runner::Config::default(), r.clone());
                        let t = (prop::collection::vec(prop_oneof![directive(), (0u8..60).prop_map(Instruction::AsmOrigin)], 1..5), any::<u64>(), any::<bool>()).new_tree(&mut runner).unwrap().current();
                        r = runner.new_rng();
                        let mut addr = 0usize;
                        for d in t.0 {
                            match d {
                                Instruction::AsmOrigin(a) => {
                                    let target = addr + a as usize;
                                    if target < 200 {
                                        addr = target;
                                        lines.push(Line::Instruction(Instruction::AsmOrigin(target as u8), None));
                                    }
                                }
                                other => {
                                    let l = refasm::length(&other);
                                    if addr + l < 200 {
                                        addr += l;
                                        lines.push(Line::Instruction(other, None));
                                    }
                                }
                            }
                        }
                        seed = t.1;
                        label_first = t.2;
                    }
                    if label_first {
                        lines.push(Line::Label("Lbl".into(), None));
                    }
                    lines.push(Line::Instruction(ins.clone(), None));
                    lines.push(Line::Instruction(Instruction::AsmDefineBytes(vec![1, 2, 3]), None));
                    if !label_first {
                        lines.push(Line::Label("Lbl".into(), None));
                    }
                    let asm = Asm { comment_after_shebang: None, lines };
                    let text = render(&asm, seed);
                    n += 1;
                    if let Verdict::Fail(s, d) = check_text(&text, Some(&asm)) {
                        if !out.iter().any(|(_, s2, _): &(String, String, String)| *s2 == s) {
                            out.push((text, s, d));
                        }
                    }
                }
            }
            (n, out)
        });
        let mut n_enum = 0;
        for (n, out) in res {
            n_enum += n;
            for (t, s, d) in out {
                ev.violation("text", &s, d, json!({"text": t, "class": "enumerated-shape"}));
            }
        }
        ev.evaluations += n_enum;
        ev.class("enumerated:instruction-shapes(x prefixes)", n_enum);
        ev.extra.insert("instruction_shapes".into(), json!(shapes.len()));
        for (i, s) in shapes.iter().enumerate() {
            ev.nontrivial(&(0x5A4u32, i));
            if i % 700 == 0 {
                ev.sample(json!({"part": "enumerated-shape", "line": s.to_string()}));
            }
        }
    }

    // ---- long programs (all four properties): line counts around 2^7, 2^8, ... 2^16
    {
        let texts = long_texts(ctx.tier == Tier::Thorough);
        let res = par_chunks(ctx.threads, texts.len(), |k| {
            let t = &texts[k];
            match check_text(t, None) {
                Verdict::Fail(s, d) => Some((s, d)),
                Verdict::Pass => None,
            }
        });
        for (k, r) in res.into_iter().enumerate() {
            ev.evaluations += 1;
            ev.nontrivial(&(0x10E6u32, k));
            if let Some((s, d)) = r {
                // (a listed finding is recognised by its signature in finish())
                let lines = texts[k].lines().count();
                ev.violation("text", &s, d, json!({"text": texts[k], "class": format!("long-program:{}-lines", lines)}));
            }
        }
        ev.class("enumerated:long-programs", texts.len() as u64);
    }
    // ---- images that end exactly at / next to the end of the RAM, followed by zero-size lines
    {
        let texts = exact_fit_texts();
        let res = par_chunks(ctx.threads, texts.len(), |k| match check_text(&texts[k], None) {
            Verdict::Fail(s, d) => Some((s, d)),
            Verdict::Pass => None,
        });
        for (k, r) in res.into_iter().enumerate() {
            ev.evaluations += 1;
            ev.nontrivial(&(0xE4F1u32, k));
            if let Some((s, d)) = r {
                ev.violation("text", &s, d, json!({"text": texts[k], "class": "exact-fit"}));
            }
        }
        ev.class("enumerated:exact-fit-images", texts.len() as u64);
    }
    // ---- programs at the limit of 40 definitions, referring to the last defined name
    {
        let texts = label_budget_texts();
        let res = par_chunks(ctx.threads, texts.len(), |k| match check_text(&texts[k], None) {
            Verdict::Fail(s, d) => Some((s, d)),
            Verdict::Pass => None,
        });
        for (k, r) in res.into_iter().enumerate() {
            ev.evaluations += 1;
            ev.nontrivial(&(0x40DEu32, k));
            if let Some((s, d)) = r {
                ev.violation("text", &s, d, json!({"text": texts[k], "class": "label-budget"}));
            }
        }
        ev.class("enumerated:label-budget-38-41-definitions", texts.len() as u64);
    }

    // ---- generated parts
    let opts = match which {
        Which::C02 => FITS,
        Which::C03 => GenOpts { max_names: 42, ..FITS },
        Which::C06 => C06_OPTS,
        Which::C16 => GenOpts { max_image: 400, max_lines: 20, ..FITS },
    };
    let (n_valid, n_mut, n_arb): (u64, u64, u64) = match which {
        Which::C03 => (ctx.tier.pick(60_000, 1_500_000), ctx.tier.pick(180_000, 4_000_000), ctx.tier.pick(180_000, 4_000_000)),
        Which::C02 => (ctx.tier.pick(60_000, 2_000_000), 0, 0),
        Which::C06 => (ctx.tier.pick(80_000, 2_000_000), ctx.tier.pick(40_000, 1_000_000), 0),
        Which::C16 => (ctx.tier.pick(80_000, 2_000_000), ctx.tier.pick(30_000, 500_000), 0),
    };
    let collected = std::sync::Mutex::new((Evidence::new("", ""), 0u64));
    let run_part = |name: &'static str, n: u64, seed: u64, make: &(dyn Fn() -> BoxedStrategy<TextCase> + Sync), ev: &mut Evidence| {
        if n == 0 {
            return;
        }
        let res = par_search(ctx.threads, 32, seed, n, make, &known, |c: &TextCase, first, _| {
            let v = check_text(&c.text, c.expected.as_ref());
            if first {
                let mut g = collected.lock().unwrap();
                let e = &mut g.0;
                e.evaluations += 1;
                *e.classes.entry(format!("{}:{}", name, c.class)).or_insert(0) += 1;
                let accepted = refparse::parse(&c.text).is_ok();
                if accepted {
                    *e.classes.entry(format!("{}:accepted", name)).or_insert(0) += 1;
                }
                let nt = match which {
                    Which::C03 => {
                        if accepted {
                            c.text.lines().skip(1).filter(|l| !l.trim().is_empty()).count() >= 3
                        } else {
                            c.text.starts_with("#! mrasm\n") || c.text.starts_with("#! mrasm\r") || c.text.starts_with("#! mrasm ;") || c.text.starts_with("#! mrasm;")
                        }
                    }
                    Which::C02 => accepted && (c.shape.label_ref_after_data || c.shape.two_operand_non_register),
                    Which::C06 => accepted && (c.shape.mixed_case_ref || c.shape.dec_non_register || c.shape.orgs >= 2 || c.shape.image > 128),
                    Which::C16 => accepted && c.shape.comments >= 1 && c.shape.mem_or_const_operands >= 1,
                };
                if nt {
                    e.nontrivial(&c.text);
                }
                if which == Which::C06 {
                    if c.shape.backward_org {
                        *e.classes.entry("shape:backward-org(known-finding shape)".into()).or_insert(0) += 1;
                    }
                    if c.shape.image > 240 {
                        *e.classes.entry("shape:image>240(known-finding shape)".into()).or_insert(0) += 1;
                    }
                }
                if e.samples.len() < 5 && nt && c.text.len() < 200 {
                    e.samples.push(json!({"part": name, "class": c.class, "text": c.text}));
                }
            }
            if let Verdict::Fail(s, _) = &v {
                if s.starts_with("HARNESS:") {
                    let mut g = collected.lock().unwrap();
                    g.1 += 1;
                    if g.1 < 4 {
                        println!("HARNESS-ERROR {:?}", v_detail(&v));
                    }
                    return Verdict::Pass;
                }
            }
            v
        });
        for r in res {
            if let Some((c, s, d)) = r.failure {
                ev.violation("text", &s, d, text_case_json(&c));
            }
            for (c, s, d) in r.tolerated {
                ev.violation("text", &s, d, text_case_json(&c));
            }
        }
    };
    run_part("valid", n_valid, ctx.seed, &move || valid_case(opts).boxed(), &mut ev);
    run_part("mutant", n_mut, ctx.seed ^ 0x77, &move || mutant_case(opts).boxed(), &mut ev);
    run_part("arbitrary", n_arb, ctx.seed ^ 0x99, &|| arbitrary_case().boxed(), &mut ev);
    let (e, h) = collected.into_inner().unwrap();
    ev.merge(e);
    if which == Which::C06 {
        process_level_c06(ctx, &mut ev, &known);
    }
    harness_errors += h;
    if which == Which::C06 {
        ev.excluded_known = 0;
    }
    ev.extra.insert("harness_self_check_failures".into(), json!(harness_errors));
    if harness_errors > 0 {
        // a disagreement between generator and reference recogniser is a harness defect: inconclusive
        println!("INCONCLUSIVE property={} {} harness self-check failure(s)", id, harness_errors);
        let code = finish(ctx, ev);
        std::process::exit(if code == 1 { 1 } else { 2 });
    }
    ev
}

/// C06 at process level: `2a-emulator verify p` must exit 0 for an accepted program and
/// `2a-emulator run p 0` must not die by panic.
fn process_level_c06(ctx: &Ctx, ev: &mut Evidence, known: &[String]) {
    use proptest::strategy::ValueTree;
    let bin = crate::props::c12::BIN;
    if !std::path::Path::new(bin).exists() {
        ev.extra.insert("process_level".into(), json!("skipped: repository binary not built"));
        return;
    }
    let n: usize = ctx.tier.pick(320, 6400);
    let per = n / 32;
    let res = par_chunks(ctx.threads, 32, |k| {
        let mut runner = runner(mix(ctx.seed ^ 0xC06 ^ ((k as u64) << 40)), per as u32);
        let strat = valid_case(C06_OPTS);
        let dir = std::path::PathBuf::from(format!("/verif/target/tmp-c06/w{}", k));
        let _ = std::fs::create_dir_all(&dir);
        let path = dir.join("p.asm");
        let mut out: Vec<(String, String, String)> = vec![];
        let mut spawned = 0u64;
        for _ in 0..per {
            let c = strat.new_tree(&mut runner).unwrap().current();
            let asm = match refparse::parse(&c.text) {
                Ok(a) => a,
                Err(_) => continue,
            };
            if std::fs::write(&path, &c.text).is_err() {
                continue;
            }
            let (backward, size) = refasm::layout_flags(&asm);
            let shape = match (backward, size > 240) {
                (false, false) => "ok",
                (true, false) => "backward-org",
                (false, true) => "image>240",
                (true, true) => "backward-org+image>240",
            };
            let run = |args: &[&str]| std::process::Command::new(bin).env("NO_COLOR", "1").env("TMPDIR", &dir).args(args).arg(&path).output();
            spawned += 1;
            match run(&["verify"]) {
                Ok(o) => {
                    if o.status.code() != Some(0) {
                        out.push((c.text.clone(), "cli:verify-rejects-accepted-program".into(), format!("`2a-emulator verify` exits with {:?} for an accepted program: {}", o.status.code(), String::from_utf8_lossy(&o.stderr).chars().take(200).collect::<String>())));
                    }
                }
                Err(_) => continue,
            }
            if let Ok(o) = std::process::Command::new(bin).env("NO_COLOR", "1").env("TMPDIR", &dir).arg("run").arg(&path).arg("0").output() {
                if o.status.code() == Some(101) || o.status.code().is_none() {
                    let sig = format!("cli:run-dies:shape={}", shape);
                    if !out.iter().any(|x| x.1 == sig) {
                        out.push((c.text.clone(), sig, format!("`2a-emulator run p 0` died (status {:?}) on an accepted program: {}", o.status.code(), String::from_utf8_lossy(&o.stderr).lines().filter(|l| l.contains("panicked") || l.contains("Message")).take(2).collect::<Vec<_>>().join(" | "))));
                    }
                }
            }
        }
        let _ = std::fs::remove_dir_all(&dir);
        (spawned, out)
    });
    let mut spawned = 0;
    for (n, out) in res {
        spawned += n;
        for (t, s, d) in out {
            let _ = known;
            ev.violation("text", &s, d, json!({"text": t, "class": "process"}));
        }
    }
    ev.evaluations += 2 * spawned;
    ev.class("process:programs-verified-and-run", spawned);
}

fn v_detail(v: &Verdict) -> String {
    match v {
        Verdict::Fail(s, d) => format!("{}: {}", s, d),
        Verdict::Pass => String::new(),
    }
}
