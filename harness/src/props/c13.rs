//! C13 — no program and no external stimulus can crash the emulator core.
//!
//! Scripts interleave clock edges (both step modes) with every public stimulus, direct bus and
//! board calls; every call runs under `catch_unwind` in a build with overflow checks and debug
//! assertions; afterwards every public getter is exercised and one more edge is issued.
use crate::engine::*;
use crate::mach::*;
use crate::progen_sem::*;
use emulator_2a_lib::compiler::Translator;
use emulator_2a_lib::machine::{Machine, MachineConfig, State, StepMode};
use emulator_2a_lib::parser::{AsmParser, Programsize};
use proptest::prelude::*;
use serde::{Deserialize, Serialize};
use serde_json::json;

#[derive(Clone, Debug, Serialize, Deserialize)]
pub enum Op {
    Edges(u8),
    AsmStep,
    KeyInt,
    Continue,
    CpuReset,
    MasterReset,
    /// load an image through the text route (stack size index, program size: None = AUTO)
    Load(Vec<u8>, u8, Option<u8>),
    Input(u8, u8),
    DigitalIn(u8),
    /// setter index 0 temp, 1 analog1, 2 analog2; f32 bits
    Volt(u8, u32),
    Jumper(u8, bool),
    Uio(u8, bool),
    BusWrite(u8, u8),
    BusRead(u8),
    /// direct board calls: 0 DO1, 1 DO2, 2 UOR, 3 UDR, 4 ICR, 5 delete int ff, 6 fetch_interrupt, 7 fan period
    Board(u8, u8),
    SetStack(u8),
    SetPsize(Option<u8>),
    /// poke a register directly (public `registers_mut`)
    PokeReg(u8, u8),
}

#[derive(Clone, Debug, Serialize, Deserialize)]
pub struct Script {
    pub image: Vec<u8>,
    pub stack: u8,
    pub psize: Option<u8>,
    pub ops: Vec<Op>,
}

pub fn volt_bits() -> impl Strategy<Value = u32> {
    prop_oneof![
        3 => any::<u32>(),
        2 => (0u32..700).prop_map(|v| (v as f32 / 100.0).to_bits()),
        1 => prop::sample::select(vec![f32::NAN.to_bits(), f32::INFINITY.to_bits(), f32::NEG_INFINITY.to_bits(), (-0.0f32).to_bits(), f32::MIN_POSITIVE.to_bits(), 1u32, f32::MAX.to_bits(), f32::MIN.to_bits(), 0x7FC0_0001, 0xFFC0_0000]),
    ]
}

/// templates biased towards the I/O page
fn tm_io() -> impl Strategy<Value = Tm> {
    let io = 0xF0u8..=0xFF;
    prop_oneof![
        4 => tm_any(),
        2 => (0u8..4, io.clone()).prop_map(|(r, a)| Tm::LdAbs(r, a)),
        2 => (io.clone(), 0u8..4).prop_map(|(a, r)| Tm::StAbs(a, r)),
        2 => (prop::sample::select(vec![0x10u8, 0x20, 0x30, 0x50, 0x60]), 0u8..4, 0u8..4, io.clone(), 0u8..4, 0u8..4, io.clone())
            .prop_map(|(s, ms, rs, sb, md, rd, db)| Tm::Two(s, ms, rs, sb, md, rd, db)),
        1 => (0u8..3, io.clone()).prop_map(|(r, v)| Tm::LdConst(r, v)),
        1 => (1u8..4, 0u8..4, io).prop_map(|(m, r, b)| Tm::DecMode(m, r, b)),
    ]
}

fn image_strategy() -> impl Strategy<Value = Vec<u8>> {
    prop_oneof![
        3 => prop::collection::vec(tm_io(), 1..70).prop_map(|p| { let mut v = assemble(&p); v.truncate(0xF0); v }),
        1 => prop::collection::vec(any::<u8>(), 0..=0xF0),
        1 => (prop::collection::vec(tm_io(), 1..30), any::<u64>()).prop_map(|(p, s)| {
            let mut ram = ram_from_seed(s | 1).to_vec();
            let code = assemble(&p);
            let n = code.len().min(0xF0);
            ram[..n].copy_from_slice(&code[..n]);
            ram
        }),
    ]
}

fn op_strategy() -> impl Strategy<Value = Op> {
    prop_oneof![
        12 => (1u8..=64).prop_map(Op::Edges),
        4 => Just(Op::AsmStep),
        3 => Just(Op::KeyInt),
        2 => Just(Op::Continue),
        1 => Just(Op::CpuReset),
        1 => Just(Op::MasterReset),
        1 => (image_strategy(), 0u8..5, prop_oneof![Just(None), any::<u8>().prop_map(Some)]).prop_map(|(i, s, p)| Op::Load(i, s, p)),
        3 => (0u8..4, any::<u8>()).prop_map(|(i, v)| Op::Input(i, v)),
        1 => any::<u8>().prop_map(Op::DigitalIn),
        4 => (0u8..3, volt_bits()).prop_map(|(i, v)| Op::Volt(i, v)),
        1 => (0u8..2, any::<bool>()).prop_map(|(i, v)| Op::Jumper(i, v)),
        2 => (0u8..3, any::<bool>()).prop_map(|(i, v)| Op::Uio(i, v)),
        4 => (prop_oneof![0xF0u8..=0xFF, any::<u8>()], any::<u8>()).prop_map(|(a, v)| Op::BusWrite(a, v)),
        2 => any::<u8>().prop_map(Op::BusRead),
        3 => (0u8..8, any::<u8>()).prop_map(|(k, v)| Op::Board(k, v)),
        1 => (0u8..5).prop_map(Op::SetStack),
        1 => prop_oneof![Just(None), any::<u8>().prop_map(Some)].prop_map(Op::SetPsize),
    ]
}

pub fn script_strategy(max_ops: usize) -> impl Strategy<Value = Script> {
    (image_strategy(), 0u8..5, prop_oneof![2 => Just(None), 3 => any::<u8>().prop_map(Some), 1 => Just(Some(255u8))], prop::collection::vec(op_strategy(), 1..max_ops))
        .prop_map(|(image, stack, psize, ops)| Script { image, stack, psize, ops })
}

pub fn image_text(image: &[u8], stack: u8, psize: Option<u8>) -> String {
    let size = ["0", "16", "32", "48", "64"][(stack % 5) as usize];
    let ps = match psize {
        Some(n) => n.to_string(),
        None => "AUTO".to_string(),
    };
    let mut text = format!("#! mrasm\n*STACKSIZE {}\n*PROGRAMSIZE {}\n", size, ps);
    for chunk in image.chunks(16) {
        text.push_str(" .DB ");
        text.push_str(&chunk.iter().map(|b| b.to_string()).collect::<Vec<_>>().join(","));
        text.push('\n');
    }
    text
}

pub struct Stats {
    pub calls: u64,
    pub edges: u64,
    pub io_changed_by_instructions: bool,
    pub nonfinite: bool,
    pub direct_io: bool,
}

/// exercise every public getter
fn read_everything(m: &Machine) -> u64 {
    let mut acc = 0u64;
    acc += m.state() as u64;
    acc += m.registers().content().iter().map(|b| *b as u64).sum::<u64>();
    acc += m.registers().flags().bits() as u64;
    acc += m.word().bits() as u64;
    let s = m.signals();
    acc += s.next_microprogram_address() as u64;
    acc += s.alu_select() as u64;
    acc += s.selected_register_a() as u64 + s.selected_register_b() as u64 + s.selected_register_for_writing() as u64;
    acc += s.alu_input_b_constant() as u64;
    acc += (s.am1() as u64) + (s.am2() as u64) + (s.am3() as u64) + (s.am4() as u64) + (s.interrupt_logic_1() as u64) + (s.address_logic_2() as u64) + (s.address_logic_3() as u64);
    for a in 0..=255u8 {
        acc += m.bus().read(a) as u64;
    }
    acc += m.bus().output_fe() as u64 + m.bus().output_ff() as u64;
    acc += m.bus().memory().len() as u64;
    acc += m.bus().is_key_edge_int_enabled() as u64 + m.bus().is_timer_edge_int_enabled() as u64;
    let b = m.bus().board();
    acc += *b.digital_input1() as u64 + *b.digital_output1() as u64 + *b.digital_output2() as u64;
    acc += b.dasr().bits() as u64 + b.daisr().bits() as u64 + b.daicr().bits() as u64;
    acc += b.daicr().interrupt_source() as u64;
    acc += (*b.fan_rpm() as u64) & 0xFF;
    acc += b.get_fan_period() as u64;
    acc += b.uio_dir().iter().filter(|x| **x).count() as u64;
    acc += (b.temp().to_bits() & 1) as u64 + (b.analog_inputs()[0].to_bits() & 1) as u64 + (b.analog_outputs()[1].to_bits() & 1) as u64;
    acc += m.is_instruction_done() as u64 + m.is_program_counter_valid() as u64;
    acc += m.stacksize() as u64;
    acc += match m.programsize() {
        Programsize::Size(n) => n as u64,
        _ => 0,
    };
    acc += m.step_mode() as u64;
    acc += format!("{:?}", m).len() as u64 & 1;
    acc
}

fn load_image(m: &mut Machine, image: &[u8], stack: u8, psize: Option<u8>) -> Result<(), String> {
    let mut img = image.to_vec();
    img.truncate(0xF0);
    if img.is_empty() {
        img.push(0);
    }
    let text = image_text(&img, stack, psize);
    let asm = AsmParser::parse(&text).map_err(|e| format!("harness text rejected: {}", e))?;
    let bc = Translator::compile(&asm);
    m.load(bc);
    Ok(())
}

pub fn apply(m: &mut Machine, op: &Op, st: &mut Stats) -> Result<(), String> {
    st.calls += 1;
    match op {
        Op::Edges(n) => {
            m.set_step_mode(StepMode::Real);
            let before = (m.bus().output_fe(), m.bus().output_ff(), m.bus().board().clone(), m.bus().is_key_edge_int_enabled());
            for _ in 0..*n {
                m.trigger_key_clock();
            }
            st.edges += *n as u64;
            if before != (m.bus().output_fe(), m.bus().output_ff(), m.bus().board().clone(), m.bus().is_key_edge_int_enabled()) {
                st.io_changed_by_instructions = true;
            }
        }
        Op::AsmStep => {
            m.set_step_mode(StepMode::Assembly);
            m.trigger_key_clock();
            m.set_step_mode(StepMode::Real);
        }
        Op::KeyInt => m.trigger_key_interrupt(),
        Op::Continue => m.trigger_key_continue(),
        Op::CpuReset => m.cpu_reset(),
        Op::MasterReset => m.master_reset(),
        Op::Load(img, s, p) => load_image(m, img, *s, *p)?,
        Op::Input(i, v) => match i {
            0 => m.set_input_fc(*v),
            1 => m.set_input_fd(*v),
            2 => m.set_input_fe(*v),
            _ => m.set_input_ff(*v),
        },
        Op::DigitalIn(v) => m.set_digital_input1(*v),
        Op::Volt(i, bits) => {
            let v = f32::from_bits(*bits);
            if !v.is_finite() {
                st.nonfinite = true;
            }
            match i {
                0 => m.set_temp(v),
                1 => m.set_analog_input1(v),
                _ => m.set_analog_input2(v),
            }
        }
        Op::Jumper(i, v) => {
            if *i == 0 {
                m.set_jumper1(*v)
            } else {
                m.set_jumper2(*v)
            }
        }
        Op::Uio(i, v) => match i {
            0 => m.set_universal_input_output1(*v),
            1 => m.set_universal_input_output2(*v),
            _ => m.set_universal_input_output3(*v),
        },
        Op::BusWrite(a, v) => {
            if *a >= 0xF0 {
                st.direct_io = true;
            }
            m.raw_mut().bus_mut().write(*a, *v)
        }
        Op::BusRead(a) => {
            if *a >= 0xF0 {
                st.direct_io = true;
            }
            let _ = m.bus().read(*a);
        }
        Op::Board(k, v) => {
            st.direct_io = true;
            let b = m.raw_mut().bus_mut().board_mut();
            match k {
                0 => b.set_digital_output1(*v),
                1 => b.set_digital_output2(*v),
                2 => b.set_uor(*v),
                3 => b.set_udr(*v),
                4 => b.set_icr(*v),
                5 => b.delete_int_ff(),
                6 => {
                    let _ = b.fetch_interrupt();
                }
                _ => {
                    let _ = b.get_fan_period();
                }
            }
        }
        Op::SetStack(i) => m.raw_mut().set_stacksize(STACKSIZES[(*i % 5) as usize]),
        Op::SetPsize(p) => m.raw_mut().set_programsize(match p {
            Some(n) => Programsize::Size(*n),
            None => Programsize::Auto,
        }),
        Op::PokeReg(r, v) => m.raw_mut().registers_mut().set(REGS[(*r & 7) as usize], *v),
    }
    Ok(())
}

pub fn run_script(s: &Script) -> (Verdict, Stats) {
    let mut st = Stats { calls: 0, edges: 0, io_changed_by_instructions: false, nonfinite: false, direct_io: false };
    let mut m = Machine::new(MachineConfig::default());
    if let Err(e) = catch(|| load_image(&mut m, &s.image, s.stack, s.psize)) {
        return (Verdict::Fail(panic_signature(&e), format!("panic while loading the image: {}", e)), st);
    }
    for (i, op) in s.ops.iter().enumerate() {
        match catch(|| apply(&mut m, op, &mut st)) {
            Ok(Ok(())) => {}
            Ok(Err(e)) => return (Verdict::Fail("c13:harness-text".into(), e), st),
            Err(p) => {
                let short = format!("{:?}", op);
                let short: String = short.chars().take(80).collect();
                return (Verdict::Fail(panic_signature(&p), format!("op #{} {} panicked: {}", i, short, p)), st);
            }
        }
        // afterwards the machine must be readable ...
        if let Err(p) = catch(|| read_everything(&m)) {
            return (Verdict::Fail(panic_signature(&p), format!("getter panicked after op #{} {:?}: {}", i, op, p)), st);
        }
    }
    // ... and can be stepped further
    if let Err(p) = catch(|| {
        m.set_step_mode(StepMode::Real);
        m.trigger_key_clock();
        if m.state() == State::Stopped {
            m.trigger_key_continue();
        }
        m.trigger_key_clock();
    }) {
        return (Verdict::Fail(panic_signature(&p), format!("final edge panicked: {}", p)), st);
    }
    (Verdict::Pass, st)
}

pub fn run(ctx: &Ctx) -> Evidence {
    let mut ev = Evidence::new(
        "exploration",
        "proptest-generated scripts: RAM image (template-built with I/O-page bias, uniform bytes, or mixed) x 5 stack sizes x program-size limit (incl. AUTO), then up to 120 operations among clock edges in both step modes, key interrupt, continue, cpu/master reset, load, input and board setters with arbitrary f32 bit patterns, direct bus read/write on every address, direct board calls; each call under catch_unwind with overflow checks on, every getter read after every call; non-trivial = instructions changed the I/O page (outputs/board/MICR) during clock edges, or a non-finite voltage or direct I/O-page call occurred; distinct by hash of the script",
    );
    ev.assumptions.push("Stacksize::NotSet is never installed on a machine (documented precondition of is_stackpointer_valid; Machine::load never does it)".into());
    ev.assumptions.push("images are limited to 240 bytes here; larger images are C06's subject".into());
    if let Some(path) = &ctx.replay {
        let doc: serde_json::Value = serde_json::from_str(&std::fs::read_to_string(path).expect("replay")).expect("json");
        let c: Script = serde_json::from_value(doc["case"].clone()).expect("case");
        ev.evaluations = 1;
        if let (Verdict::Fail(s, d), _) = run_script(&c) {
            ev.violation("script", &s, d, doc["case"].clone());
        }
        return ev;
    }
    let known: Vec<String> = load_known("C13").into_iter().map(|k| k.signature).collect();
    // ---- enumerated: execution out of the I/O page.  Every byte value as the opcode at each of the five
    // externally settable addresses (digital input 0xF0, input registers 0xFC-0xFF), entered by a jump
    // under the program-size limit 255, with three follow-up byte patterns in the other registers.
    {
        let mut scripts = vec![];
        for (ai, addr) in [0xF0u8, 0xFC, 0xFD, 0xFE, 0xFF].iter().enumerate() {
            for b in 0..=255u8 {
                for follow in [0x02u8, 0x10, 0x2C] {
                    let mut ops = vec![Op::DigitalIn(if ai == 0 { b } else { follow })];
                    for i in 0..4u8 {
                        ops.push(Op::Input(i, if ai as u8 == i + 1 { b } else { follow }));
                    }
                    ops.extend([Op::Edges(40), Op::KeyInt, Op::Continue, Op::Edges(40), Op::AsmStep, Op::AsmStep, Op::Continue, Op::AsmStep]);
                    // LDSP 0xE0 ; JR to the address (MOV PC, #addr)
                    let image = assemble(&[Tm::LdSp(0xE0), Tm::LdConst(3, *addr)]);
                    scripts.push(Script { image, stack: (b % 5), psize: Some(255), ops });
                }
            }
        }
        let res = par_chunks(ctx.threads, scripts.len(), |k| run_script(&scripts[k]).0);
        for (k, v) in res.into_iter().enumerate() {
            ev.evaluations += 1;
            ev.nontrivial(&(0x10F0u32, k));
            if let Verdict::Fail(s, d) = v {
                ev.violation("script", &s, d, serde_json::to_value(&scripts[k]).unwrap());
            }
        }
        ev.class("enumerated:opcode-fetched-from-io-page(address x byte x follow-up)", scripts.len() as u64);
    }
    // ---- enumerated: every prefix opcode x every second byte x program-size limits around the pair
    // (the second opcode byte is decoded by a word of its own; halting bytes and the supervision can
    // meet on one clock edge there)
    {
        let mut scripts = vec![];
        for first in 0xF0u8..=0xFF {
            for second in 0..=255u8 {
                for (li, limit) in [0u8, 1, 2, 255].iter().enumerate() {
                    let image = vec![first, second, 0x02, 0x02, 0x01];
                    let ops = vec![Op::Edges(30), Op::KeyInt, Op::Continue, Op::Edges(20), Op::AsmStep, Op::CpuReset, Op::AsmStep, Op::AsmStep];
                    scripts.push(Script { image, stack: ((second as usize + li) % 5) as u8, psize: Some(*limit), ops });
                }
            }
        }
        let res = par_chunks(ctx.threads, scripts.len(), |k| run_script(&scripts[k]).0);
        for (k, v) in res.into_iter().enumerate() {
            ev.evaluations += 1;
            ev.nontrivial(&(0x2B17u32, k));
            if let Verdict::Fail(s, d) = v {
                ev.violation("script", &s, d, serde_json::to_value(&scripts[k]).unwrap());
            }
        }
        ev.class("enumerated:prefix-opcode x second-byte x program-size-limit", scripts.len() as u64);
    }
    let n: u64 = ctx.tier.pick(150_000, 5_000_000);
    let collected = std::sync::Mutex::new(Evidence::new("", ""));
    let res = par_search(ctx.threads, 32, ctx.seed, n, || script_strategy(120), &known, |c, first, _| {
        let (v, st) = run_script(c);
        if first {
            let mut e = collected.lock().unwrap();
            e.evaluations += 1;
            *e.classes.entry("calls".into()).or_insert(0) += st.calls;
            *e.classes.entry("clock-edges".into()).or_insert(0) += st.edges;
            if st.io_changed_by_instructions {
                *e.classes.entry("scripts:io-page-written-by-instructions".into()).or_insert(0) += 1;
            }
            if st.nonfinite {
                *e.classes.entry("scripts:non-finite-voltage".into()).or_insert(0) += 1;
            }
            if st.io_changed_by_instructions || st.nonfinite || st.direct_io {
                e.nontrivial(&serde_json::to_string(c).unwrap());
            }
            if e.samples.len() < 3 && st.io_changed_by_instructions && c.ops.len() < 12 {
                let s = json!({"image": hex(&c.image), "stack_index": c.stack, "psize": c.psize, "ops": format!("{:?}", c.ops)});
                e.samples.push(s);
            }
        }
        v
    });
    for r in res {
        if let Some((c, s, d)) = r.failure {
            ev.violation("script", &s, d, serde_json::to_value(&c).unwrap());
        }
        for (c, s, d) in r.tolerated {
            ev.violation("script", &s, d, serde_json::to_value(&c).unwrap());
        }
    }
    ev.merge(collected.into_inner().unwrap());
    ev
}
