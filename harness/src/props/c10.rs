//! C10 — bus address map: RAM, I/O registers and ports never alias or leak.
//! Exhaustive single writes / write pairs / reads against a map-based reference model, plus
//! proptest-generated histories.
use crate::engine::*;
use emulator_2a_lib::machine::{Bus, RawMachine};
use proptest::prelude::*;
use serde::{Deserialize, Serialize};
use serde_json::json;

#[derive(Clone, PartialEq, Debug)]
pub struct BusModel {
    ram: [u8; 0xF0],
    inp: [u8; 4],
    out: [u8; 2],
    key_en: bool,
    timer_en: bool,
    dout: [u8; 2],
    di1: u8,
}

impl BusModel {
    fn new() -> Self {
        BusModel { ram: [0; 0xF0], inp: [0; 4], out: [0; 2], key_en: false, timer_en: false, dout: [0; 2], di1: 0 }
    }
    fn write(&mut self, a: u8, v: u8) {
        match a {
            0..=0xEF => self.ram[a as usize] = v,
            0xF0 => self.dout[0] = v,
            0xF1 => self.dout[1] = v,
            0xF9 => {
                self.key_en = v & 1 != 0;
                self.timer_en = v & 2 != 0;
            }
            0xFE => self.out[0] = v,
            0xFF => self.out[1] = v,
            _ => {}
        }
    }
    /// Some(expected) where the statement defines the value read
    fn read(&self, a: u8) -> Option<u8> {
        match a {
            0..=0xEF => Some(self.ram[a as usize]),
            0xF0 => Some(self.di1),
            0xFC..=0xFF => Some(self.inp[(a - 0xFC) as usize]),
            _ => None,
        }
    }
}

#[derive(Clone, Debug, Serialize, Deserialize)]
pub enum Op {
    Write(u8, u8),
    Read(u8),
    SetInput(u8, u8),
    DigitalIn(u8),
    Volt(u8, u32),
    Jumper(u8, bool),
    Uio(u8, bool),
    KeyTrigger,
}

/// compare everything the statement pins down; `status_before` = read(0xF9) before the op
fn compare(m: &RawMachine, model: &BusModel) -> Result<(), (String, String)> {
    let bus = m.bus();
    for a in 0..=255u8 {
        let got = bus.read(a);
        if let Some(exp) = model.read(a) {
            if got != exp {
                let region = if a <= 0xEF { "ram" } else if a >= 0xFC { "input-register" } else { "port" };
                return Err((format!("bus:read-{}", region), format!("read({:02X}) = {:02X}, expected {:02X}", a, got, exp)));
            }
        }
    }
    if bus.memory()[..] != model.ram[..] {
        return Err(("bus:memory-view".into(), "memory() differs from the RAM model".into()));
    }
    if bus.output_fe() != model.out[0] || bus.output_ff() != model.out[1] {
        return Err(("bus:output-register".into(), format!("outputs FE/FF = {:02X}/{:02X}, expected {:02X}/{:02X}", bus.output_fe(), bus.output_ff(), model.out[0], model.out[1])));
    }
    if bus.is_key_edge_int_enabled() != model.key_en || bus.is_timer_edge_int_enabled() != model.timer_en {
        return Err(("bus:interrupt-mask".into(), format!("enable mask key/timer = {}/{}, expected {}/{}", bus.is_key_edge_int_enabled(), bus.is_timer_edge_int_enabled(), model.key_en, model.timer_en)));
    }
    let b = bus.board();
    if *b.digital_output1() != model.dout[0] || *b.digital_output2() != model.dout[1] {
        return Err(("bus:board-output-port".into(), format!("board output ports {:02X}/{:02X}, expected {:02X}/{:02X}", b.digital_output1(), b.digital_output2(), model.dout[0], model.dout[1])));
    }
    if bus.read(0xF1) != b.dasr().bits() {
        return Err(("bus:read-status-f1".into(), "read(0xF1) differs from the board's status register".into()));
    }
    if bus.read(0xF3) != b.daisr().bits() {
        return Err(("bus:read-status-f3".into(), "read(0xF3) differs from the board's interrupt status register".into()));
    }
    Ok(())
}

fn apply(m: &mut RawMachine, model: &mut BusModel, op: &Op) -> Result<(), (String, String)> {
    let status_before = m.bus().read(0xF9);
    match *op {
        Op::Write(a, v) => {
            m.bus_mut().write(a, v);
            model.write(a, v);
            if m.bus().read(0xF9) != status_before {
                return Err(("bus:status-changed-by-write".into(), format!("write({:02X},{:02X}) changed the interrupt status read at 0xF9 from {:02X} to {:02X}", a, v, status_before, m.bus().read(0xF9))));
            }
            if a == 0xF9 && v != 0 && v != status_before && m.bus().read(0xF9) == v {
                return Err(("bus:status-reads-mask".into(), format!("read(0xF9) returns the mask {:02X} just written", v)));
            }
        }
        Op::Read(a) => {
            let before = m.bus().clone();
            let _ = m.bus().read(a);
            if *m.bus() != before {
                return Err(("bus:read-changes-state".into(), format!("read({:02X}) changed the bus state", a)));
            }
        }
        Op::SetInput(i, v) => {
            match i {
                0 => m.bus_mut().input_fc(v),
                1 => m.bus_mut().input_fd(v),
                2 => m.bus_mut().input_fe(v),
                _ => m.bus_mut().input_ff(v),
            }
            model.inp[(i & 3) as usize] = v;
        }
        Op::DigitalIn(v) => {
            m.bus_mut().board_mut().set_digital_input1(v);
            model.di1 = v;
        }
        Op::Volt(i, bits) => {
            let v = f32::from_bits(bits);
            let b = m.bus_mut().board_mut();
            match i {
                0 => b.set_temp(v),
                1 => b.set_analog_input1(v),
                _ => b.set_analog_input2(v),
            }
        }
        Op::Jumper(i, v) => {
            let b = m.bus_mut().board_mut();
            if i == 0 {
                b.set_jumper1(v)
            } else {
                b.set_jumper2(v)
            }
        }
        Op::Uio(i, v) => {
            let b = m.bus_mut().board_mut();
            match i {
                0 => b.set_universal_input_output1(v),
                1 => b.set_universal_input_output2(v),
                _ => b.set_universal_input_output3(v),
            }
        }
        Op::KeyTrigger => m.trigger_key_edge_interrupt(),
    }
    compare(m, model)
}

#[derive(Clone, Debug, Serialize, Deserialize)]
pub struct History {
    pub ops: Vec<Op>,
}

pub fn check_history(h: &History) -> (Verdict, bool) {
    catch(|| check_history_inner(h)).unwrap_or_else(|p| (Verdict::Fail(panic_signature(&p), format!("panic: {}", p)), true))
}

fn check_history_inner(h: &History) -> (Verdict, bool) {
    let mut m = RawMachine::new();
    let mut model = BusModel::new();
    let mut nontrivial = false;
    for (i, op) in h.ops.iter().enumerate() {
        if let Op::Write(a, _) | Op::Read(a) = op {
            if *a >= 0xE8 {
                nontrivial = true;
            }
        }
        if let Err((s, d)) = apply(&mut m, &mut model, op) {
            return (Verdict::Fail(s, format!("op #{} {:?}: {}", i, op, d)), nontrivial);
        }
    }
    (Verdict::Pass, nontrivial)
}

fn op_strategy() -> impl Strategy<Value = Op> {
    let addr = prop_oneof![2 => any::<u8>(), 3 => 0xE8u8..=0xFF];
    prop_oneof![
        10 => (addr.clone(), any::<u8>()).prop_map(|(a, v)| Op::Write(a, v)),
        4 => addr.prop_map(Op::Read),
        3 => (0u8..4, any::<u8>()).prop_map(|(i, v)| Op::SetInput(i, v)),
        1 => any::<u8>().prop_map(Op::DigitalIn),
        1 => (0u8..3, crate::props::c13::volt_bits()).prop_map(|(i, v)| Op::Volt(i, v)),
        1 => (0u8..2, any::<bool>()).prop_map(|(i, v)| Op::Jumper(i, v)),
        1 => (0u8..3, any::<bool>()).prop_map(|(i, v)| Op::Uio(i, v)),
        1 => Just(Op::KeyTrigger),
    ]
}

/// three base states for the exhaustive parts
fn base_states() -> Vec<History> {
    vec![
        History { ops: vec![] },
        History { ops: vec![Op::SetInput(0, 0x11), Op::SetInput(1, 0x22), Op::SetInput(2, 0x33), Op::SetInput(3, 0x44), Op::DigitalIn(0x5A), Op::Write(0xFE, 0xA1), Op::Write(0xFF, 0xB2), Op::Write(0x00, 0xC3), Op::Write(0xEF, 0xD4)] },
        History { ops: vec![Op::Write(0xF9, 0x03), Op::KeyTrigger, Op::Write(0xF0, 77), Op::Write(0xF1, 88), Op::Write(0xF2, 0x87), Op::Write(0xF2, 0xE1), Op::Uio(1, true), Op::Jumper(0, true), Op::Volt(1, 3.3f32.to_bits())] },
    ]
}

pub fn run(ctx: &Ctx) -> Evidence {
    let mut ev = Evidence::new(
        "exploration",
        "exhaustive: every (address, byte) single write from 3 base states; every ordered pair of write addresses (65 536) with distinct bytes followed by a read of all 256 addresses; every address read with full bus-state comparison; plus proptest histories of write/read/input/board-input/key-trigger operations (<= 200 ops) against a map-based model checked after every operation; non-trivial = operation on 0xE8-0xFF or a pair straddling 0xEF/0xF0; distinct by hash",
    );
    ev.assumptions.push("addresses the statement does not mention (0xF2 read, 0xF4-0xF8, 0xFA/0xFB, value of the status bits at 0xF9) are only checked for having no effect on RAM, inputs, outputs and masks".into());
    if let Some(path) = &ctx.replay {
        let doc: serde_json::Value = serde_json::from_str(&std::fs::read_to_string(path).expect("replay")).expect("json");
        let c: History = serde_json::from_value(doc["case"].clone()).expect("case");
        ev.evaluations = 1;
        if let (Verdict::Fail(s, d), _) = check_history(&c) {
            ev.violation("history", &s, d, doc["case"].clone());
        }
        return ev;
    }
    let bases = base_states();
    // single writes: 3 x 256 x 256
    let res = par_chunks(ctx.threads, 256, |a| {
        let a = a as u8;
        let mut fails = vec![];
        let mut n = 0u64;
        for base in &bases {
            for v in 0..=255u8 {
                let mut h = base.clone();
                h.ops.push(Op::Write(a, v));
                h.ops.push(Op::Read(a));
                n += 1;
                if fails.is_empty() {
                    if let (Verdict::Fail(s, d), _) = check_history(&h) {
                        fails.push((h, s, d));
                    }
                }
            }
        }
        (n, fails)
    });
    let mut singles = 0;
    for (n, fails) in res {
        singles += n;
        for (h, s, d) in fails {
            ev.violation("history", &s, d, serde_json::to_value(&h).unwrap());
        }
    }
    ev.class("exhaustive:single-writes", singles);
    // ordered pairs of write addresses
    let res = par_chunks(ctx.threads, 256, |a1| {
        let a1 = a1 as u8;
        let mut fails = vec![];
        let mut n = 0u64;
        for a2 in 0..=255u8 {
            let h = History { ops: vec![Op::SetInput(0, 0x3C), Op::SetInput(3, 0xC3), Op::Write(a1, (0x5A ^ a1) | 1), Op::Write(a2, (0xA5 ^ a2) & 0xFE)] };
            n += 1;
            if fails.is_empty() {
                if let (Verdict::Fail(s, d), _) = check_history(&h) {
                    fails.push((h, s, d));
                }
            }
        }
        (n, fails)
    });
    let mut pairs = 0;
    for (n, fails) in res {
        pairs += n;
        for (h, s, d) in fails {
            ev.violation("history", &s, d, serde_json::to_value(&h).unwrap());
        }
    }
    ev.class("exhaustive:ordered-write-pairs", pairs);
    ev.evaluations += singles + pairs;
    for a in [0xE8u64, 0xEF, 0xF0, 0xF9, 0xFC, 0xFF] {
        for v in 0..256u64 {
            ev.nontrivial(&(a, v, 0x10u8));
        }
    }
    for a1 in 0xE8u64..=0xFF {
        for a2 in 0..256u64 {
            ev.nontrivial(&(a1, a2, 0x20u8));
        }
    }
    ev.sample(json!({"part": "exhaustive-pair", "ops": format!("{:?}", vec![Op::Write(0xEF, 0x11), Op::Write(0xF0, 0x22)])}));
    ev.exhaustive = Some(true);

    let n: u64 = ctx.tier.pick(200_000, 3_000_000);
    let collected = std::sync::Mutex::new(Evidence::new("", ""));
    let res = par_search(ctx.threads, 32, ctx.seed, n, || prop::collection::vec(op_strategy(), 1..200).prop_map(|ops| History { ops }), &[], |c, first, _| {
        let (v, nt) = check_history(c);
        if first {
            let mut e = collected.lock().unwrap();
            e.evaluations += 1;
            *e.classes.entry("random:operations".into()).or_insert(0) += c.ops.len() as u64;
            if nt {
                e.nontrivial(&serde_json::to_string(c).unwrap());
            }
            if e.samples.len() < 3 && c.ops.len() < 10 {
                let s = json!({"part": "random-history", "ops": format!("{:?}", c.ops)});
                e.samples.push(s);
            }
        }
        v
    });
    for r in res {
        if let Some((c, s, d)) = r.failure {
            ev.violation("history", &s, d, serde_json::to_value(&c).unwrap());
        }
    }
    ev.merge(collected.into_inner().unwrap());
    ev
}
