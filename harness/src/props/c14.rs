//! C14 — MR2DA2 board status always reflects its inputs, DACs and configuration.
//! Histories of port writes (0xF0-0xF3) and external setters, checked after every operation
//! against a reference model; thorough: all 2^32 f32 bit patterns through the voltage setters.
use crate::engine::*;
use emulator_2a_lib::machine::Bus;
use proptest::prelude::*;
use serde::{Deserialize, Serialize};
use serde_json::json;

#[derive(Clone, Debug, Serialize, Deserialize, PartialEq)]
pub enum Op {
    /// bus write to 0xF0..0xF3
    W(u8, u8),
    /// voltage setters: 0 temp, 1 analog1, 2 analog2 (f32 bits)
    Volt(u8, u32),
    J1(bool),
    J2(bool),
    U(u8, bool),
    Di(u8),
}

/// stored voltage: v if 0 <= v <= 5, 5 if v > 5, else 0 (NaN and negatives)
fn clamp(v: f32) -> f32 {
    if v >= 0.0 && v <= 5.0 {
        v
    } else if v > 5.0 {
        5.0
    } else {
        0.0
    }
}

#[derive(Clone)]
struct Model {
    temp: f32,
    a1: f32,
    a2: f32,
    d1: u8,
    d2: u8,
    j1: bool,
    j2: bool,
    di: u8,
    dir: [bool; 3],
    icr: u8,
}

#[derive(Default)]
pub struct Stats {
    pub ops: u64,
    pub raises: u64,
    pub unconstrained_comparator: u64,
    pub dir_change: bool,
    pub icr_source: bool,
    pub comp_cross: bool,
}

fn volt_strategy() -> impl Strategy<Value = u32> {
    prop_oneof![
        // exact thresholds b/100 and one ulp around them
        4 => (any::<u8>(), 0u8..3).prop_map(|(b, k)| {
            let t = (b as f32 / 100.0).to_bits();
            match k { 0 => t, 1 => t + 1, _ => t.saturating_sub(1) }
        }),
        3 => (0u32..600).prop_map(|v| (v as f32 / 100.0).to_bits()),
        2 => (0.0f32..5.0).prop_map(|v| v.to_bits()),
        1 => prop::sample::select(vec![f32::NAN.to_bits(), f32::INFINITY.to_bits(), f32::NEG_INFINITY.to_bits(), (-0.0f32).to_bits(), (-1.5f32).to_bits(), 5.0f32.to_bits(), 5.0000005f32.to_bits(), 1u32, 0x7FC0_0001]),
        1 => any::<u32>(),
    ]
}

fn op_strategy() -> impl Strategy<Value = Op> {
    prop_oneof![
        3 => any::<u8>().prop_map(|v| Op::W(0xF0, v)),
        3 => any::<u8>().prop_map(|v| Op::W(0xF1, v)),
        2 => (0u8..0x40).prop_map(|v| Op::W(0xF2, v)),
        2 => (0u8..8).prop_map(|v| Op::W(0xF2, 0x80 | v)),
        3 => (0u8..0x40).prop_map(|v| Op::W(0xF2, 0xC0 | v)),
        1 => (0x40u8..0x80).prop_map(|v| Op::W(0xF2, v)),
        1 => any::<u8>().prop_map(|v| Op::W(0xF3, v)),
        6 => (0u8..3, volt_strategy()).prop_map(|(i, v)| Op::Volt(i, v)),
        2 => any::<bool>().prop_map(Op::J1),
        1 => any::<bool>().prop_map(Op::J2),
        1 => any::<u8>().prop_map(Op::Di),
        4 => (0u8..3, any::<bool>()).prop_map(|(i, v)| Op::U(i, v)),
    ]
}

#[derive(Clone, Debug, Serialize, Deserialize)]
pub struct History {
    pub ops: Vec<Op>,
}

pub fn check_history(h: &History) -> (Verdict, Stats) {
    let mut st = Stats::default();
    let r = catch(|| check_inner(h, &mut st));
    match r {
        Ok(Ok(())) => (Verdict::Pass, st),
        Ok(Err((s, d))) => (Verdict::Fail(s, d), st),
        Err(p) => (Verdict::Fail(panic_signature(&p), format!("panic: {}", p)), st),
    }
}

fn check_inner(h: &History, st: &mut Stats) -> Result<(), (String, String)> {
    let mut bus = Bus::new();
    let mut m = Model { temp: 0.0, a1: 0.0, a2: 0.0, d1: 0, d2: 0, j1: false, j2: false, di: 0, dir: [false; 3], icr: 0 };
    for (k, op) in h.ops.iter().enumerate() {
        let pre = bus.board().clone();
        let pre_dasr = pre.dasr().bits();
        let pre_daisr = pre.daisr().bits();
        match op {
            Op::W(a, v) => bus.write(*a, *v),
            Op::Volt(i, bits) => {
                let v = f32::from_bits(*bits);
                match i {
                    0 => bus.board_mut().set_temp(v),
                    1 => bus.board_mut().set_analog_input1(v),
                    _ => bus.board_mut().set_analog_input2(v),
                }
            }
            Op::J1(v) => bus.board_mut().set_jumper1(*v),
            Op::J2(v) => bus.board_mut().set_jumper2(*v),
            Op::Di(v) => bus.board_mut().set_digital_input1(*v),
            Op::U(i, v) => match i {
                0 => bus.board_mut().set_universal_input_output1(*v),
                1 => bus.board_mut().set_universal_input_output2(*v),
                _ => bus.board_mut().set_universal_input_output3(*v),
            },
        }
        st.ops += 1;
        // interrupt configuration in force during this op = last ICR write before it
        let src = m.icr & 7;
        let falling = m.icr & 0x08 != 0;
        let dir_before = m.dir;
        match op {
            Op::W(0xF0, v) => m.d1 = *v,
            Op::W(0xF1, v) => m.d2 = *v,
            Op::W(0xF2, v) => match v >> 6 {
                2 => {
                    let nd = [v & 1 != 0, v & 2 != 0, v & 4 != 0];
                    if nd != m.dir {
                        st.dir_change = true;
                    }
                    m.dir = nd;
                }
                3 => {
                    m.icr = v & 0x3F;
                    if v & 7 != 0 {
                        st.icr_source = true;
                    }
                }
                _ => {}
            },
            Op::Volt(0, b) => m.temp = clamp(f32::from_bits(*b)),
            Op::Volt(1, b) => m.a1 = clamp(f32::from_bits(*b)),
            Op::Volt(_, b) => m.a2 = clamp(f32::from_bits(*b)),
            Op::J1(v) => m.j1 = *v,
            Op::J2(v) => m.j2 = *v,
            Op::Di(v) => m.di = *v,
            _ => {}
        }
        let b = bus.board();
        let dasr = b.dasr().bits();
        let daisr = b.daisr().bits();
        let fail = |sig: &str, d: String| -> Result<(), (String, String)> { Err((format!("board:{}", sig), format!("op #{} {:?}: {}", k, op, d))) };
        // stored voltages (numeric comparison: -0.0 == 0.0)
        if !(*b.temp() == m.temp && b.analog_inputs()[0] == m.a1 && b.analog_inputs()[1] == m.a2) {
            return fail("stored-voltage", format!("stored temp/AI1/AI2 = {:?}/{:?}, expected {}/{}/{}", b.temp(), b.analog_inputs(), m.temp, m.a1, m.a2));
        }
        if (b.analog_outputs()[0] - m.d1 as f32 / 100.0).abs() > 1e-4 || (b.analog_outputs()[1] - m.d2 as f32 / 100.0).abs() > 1e-4 {
            return fail("dac-voltage", format!("DAC voltages {:?}, expected {}/100 and {}/100", b.analog_outputs(), m.d1, m.d2));
        }
        if *b.digital_output1() != m.d1 || *b.digital_output2() != m.d2 {
            return fail("output-port", format!("output ports {:02X}/{:02X}, expected {:02X}/{:02X}", b.digital_output1(), b.digital_output2(), m.d1, m.d2));
        }
        if bus.read(0xF0) != m.di || *b.digital_input1() != m.di {
            return fail("input-port", format!("input port reads {:02X}, expected {:02X}", bus.read(0xF0), m.di));
        }
        if (dasr & 0x40 != 0) != m.j1 || (dasr & 0x80 != 0) != m.j2 {
            return fail("jumper-bits", format!("J1/J2 bits {}/{}, expected {}/{}", dasr & 0x40 != 0, dasr & 0x80 != 0, m.j1, m.j2));
        }
        // comparators: exactly "input exceeds the DAC voltage", where the DAC voltage is the one the board
        // itself reports (checked above to be b/100 within 1e-4).  No tolerance band: both sides are
        // observables of the board, so the comparison does not depend on how b/100 is rounded.
        // (A first version left |input - b/100| <= 1e-6 unconstrained; a seeded change that computes the
        // threshold one ulp below the reported DAC voltage showed that this gave away the diagonal.)
        let c1 = m.a1 > b.analog_outputs()[0];
        if (dasr & 0x08 != 0) != c1 {
            return fail("comparator1", format!("CP1 bit {} with input {:?} V and reported DAC voltage {:?} V (byte {})", dasr & 0x08 != 0, m.a1, b.analog_outputs()[0], m.d1));
        }
        let in2 = m.temp.max(m.a2);
        let c2 = in2 > b.analog_outputs()[1];
        if (dasr & 0x10 != 0) != c2 {
            return fail("comparator2", format!("CP2 bit {} with input max({:?}, {:?}) V and reported DAC voltage {:?} V (byte {})", dasr & 0x10 != 0, m.temp, m.a2, b.analog_outputs()[1], m.d2));
        }
        if m.a1 == b.analog_outputs()[0] || in2 == b.analog_outputs()[1] {
            st.unconstrained_comparator += 1; // counter reused: comparator evaluated exactly on the diagonal
        }
        if (pre_dasr ^ dasr) & 0x18 != 0 {
            st.comp_cross = true;
        }
        // UIO pins
        if let Op::U(i, val) = op {
            let bit = 1u8 << i;
            if dir_before[*i as usize] {
                if (dasr & bit) != (pre_dasr & bit) {
                    return fail("uio-output-pin-followed-external", "a UIO pin configured as output changed by an external set".into());
                }
            } else if (dasr & bit != 0) != *val {
                return fail("uio-input-not-visible", "external change of an input-configured UIO pin is not visible in the status register".into());
            }
            if (dasr & !bit) != (pre_dasr & !bit) {
                return fail("uio-set-changed-other-bits", format!("status register changed {:02X} -> {:02X} beyond the pin", pre_dasr, dasr));
            }
        }
        if let Op::W(0xF2, val) = op {
            if val >> 6 == 0 || val >> 6 == 2 || val >> 6 == 1 {
                if (dasr & !7) != (pre_dasr & !7) || daisr != pre_daisr {
                    return fail("uor-udr-write-side-effect", format!("UOR/UDR write changed other status: DASR {:02X}->{:02X}, DAISR {:02X}->{:02X}", pre_dasr, dasr, pre_daisr, daisr));
                }
            }
        }
        // interrupt flags, relationally
        let level = |dasr: u8| -> Option<bool> {
            match src {
                1 => Some(dasr & 1 != 0),
                2 => Some(dasr & 2 != 0),
                3 => Some(dasr & 4 != 0),
                4 => Some(dasr & 8 != 0),
                5 => Some(dasr & 0x10 != 0),
                6 => Some(dasr & 0x40 != 0),
                _ => None,
            }
        };
        let external = match op {
            Op::J1(_) => src == 6,
            Op::U(i, _) => src == i + 1 && !dir_before[*i as usize],
            Op::W(0xF0, _) | Op::Volt(1, _) => src == 4,
            Op::W(0xF1, _) | Op::Volt(0, _) | Op::Volt(2, _) => src == 5,
            _ => false,
        };
        let expect_raise = external
            && match (level(pre_dasr), level(dasr)) {
                (Some(a), Some(bb)) => {
                    if falling {
                        a && !bb
                    } else {
                        !a && bb
                    }
                }
                _ => false,
            };
        let ff_raised = pre_daisr & 2 == 0 && daisr & 2 != 0;
        let src_raised = pre_daisr & 1 == 0 && daisr & 1 != 0;
        if expect_raise {
            st.raises += 1;
            if daisr & 3 != 3 {
                return fail("interrupt-not-raised", format!("source {} made its {} transition (DASR {:02X}->{:02X}) but DAISR is {:02X}", src, if falling { "falling" } else { "rising" }, pre_dasr, dasr, daisr));
            }
        } else if ff_raised || src_raised {
            return fail("interrupt-spurious", format!("interrupt flags raised (DAISR {:02X}->{:02X}) without the configured transition: source {} falling {} DASR {:02X}->{:02X}", pre_daisr, daisr, src, falling, pre_dasr, dasr));
        }
        // fan period law
        let fp = bus.read(0xF2) as i32;
        let exp = 255 - m.d1 as i32;
        if (fp - exp).abs() > 1 {
            return fail("fan-period", format!("read(0xF2) = {}, documented 255 - 255*V/2.55 = {} for DAC byte {}", fp, exp, m.d1));
        }
    }
    Ok(())
}

pub fn run(ctx: &Ctx) -> Evidence {
    let mut ev = Evidence::new(
        "exploration",
        "proptest histories (<= 100 ops) of writes to 0xF0-0xF3 with every byte value and external setters with f32 values from exact thresholds b/100, one ulp around them, [0,5], out-of-range, NaN/inf and raw bit patterns; reference model checked after every operation; thorough: all 2^32 f32 bit patterns through the three voltage setters (clamping rule + comparator); non-trivial = history with a UIO direction change, an ICR write selecting a source and at least one comparator crossing; distinct by hash",
    );
    ev.assumptions.push("comparator = (stored input > DAC voltage as reported by the board), exact; effect of a UOR write on the three UIO status bits and clearing of interrupt flags are not constrained".into());
    if let Some(path) = &ctx.replay {
        let doc: serde_json::Value = serde_json::from_str(&std::fs::read_to_string(path).expect("replay")).expect("json");
        let c: History = serde_json::from_value(doc["case"].clone()).expect("case");
        ev.evaluations = 1;
        if let (Verdict::Fail(s, d), _) = check_history(&c) {
            ev.violation("history", &s, d, doc["case"].clone());
        }
        return ev;
    }
    let known: Vec<String> = load_known("C14").into_iter().map(|k| k.signature).collect();
    // enumerated: every DAC byte x fan law / comparator at exact thresholds
    let mut enumerated = 0u64;
    for b in 0..=255u8 {
        for k in 0..3u8 {
            let t = (b as f32 / 100.0).to_bits();
            let v = match k {
                0 => t,
                1 => t + 1,
                _ => t.saturating_sub(1),
            };
            let h = History { ops: vec![Op::W(0xF2, 0xC0 | 0x24), Op::W(0xF0, b), Op::Volt(1, v), Op::W(0xF2, 0xC0 | 0x2D), Op::W(0xF1, b), Op::Volt(2, v), Op::Volt(0, v), Op::W(0xF1, b.wrapping_add(1)), Op::W(0xF0, b.wrapping_sub(1))] };
            enumerated += 1;
            if let (Verdict::Fail(s, d), _) = check_history(&h) {
                ev.violation("history", &s, d, serde_json::to_value(&h).unwrap());
            }
            ev.nontrivial(&(0xE14u32, b, k));
        }
    }
    ev.evaluations += enumerated;
    ev.class("enumerated:dac-byte-x-threshold-neighbourhood", enumerated);

    let n: u64 = ctx.tier.pick(400_000, 5_000_000);
    let collected = std::sync::Mutex::new(Evidence::new("", ""));
    let res = par_search(ctx.threads, 32, ctx.seed, n, || prop::collection::vec(op_strategy(), 1..100).prop_map(|ops| History { ops }), &known, |c, first, _| {
        let (v, st) = check_history(c);
        if first {
            let mut e = collected.lock().unwrap();
            e.evaluations += 1;
            *e.classes.entry("operations".into()).or_insert(0) += st.ops;
            *e.classes.entry("expected-interrupt-raises".into()).or_insert(0) += st.raises;
            *e.classes.entry("comparator-evaluations-exactly-on-the-diagonal(input == DAC voltage)".into()).or_insert(0) += st.unconstrained_comparator;
            if st.dir_change && st.icr_source && st.comp_cross {
                e.nontrivial(&serde_json::to_string(c).unwrap());
            }
            if e.samples.len() < 3 && c.ops.len() < 9 && st.raises > 0 {
                let s = json!({"ops": format!("{:?}", c.ops)});
                e.samples.push(s);
            }
        }
        v
    });
    for r in res {
        if let Some((c, s, d)) = r.failure {
            ev.violation("history", &s, d, serde_json::to_value(&c).unwrap());
        }
        for (c, s, d) in r.tolerated {
            ev.violation("history", &s, d, serde_json::to_value(&c).unwrap());
        }
    }
    ev.merge(collected.into_inner().unwrap());
    if ev.samples.is_empty() {
        ev.sample(json!({"ops": "W(F2,E4) W(F0,b) Volt(AI1, b/100 +- 1ulp) ..."}));
    }

    if ctx.tier == Tier::Thorough {
        // all 2^32 bit patterns through the three setters
        let res = par_chunks(ctx.threads, 256, |hi| {
            let mut bus = Bus::new();
            bus.write(0xF0, 123);
            bus.write(0xF1, 200);
            let mut bad: Option<String> = None;
            for lo in 0..(1u32 << 24) {
                let bits = ((hi as u32) << 24) | lo;
                let v = f32::from_bits(bits);
                let exp = clamp(v);
                let b = bus.board_mut();
                b.set_analog_input1(v);
                b.set_analog_input2(v);
                b.set_temp(0.0);
                let ok1 = b.analog_inputs()[0] == exp && b.analog_inputs()[1] == exp;
                let c1 = b.dasr().bits() & 0x08 != 0;
                let c2 = b.dasr().bits() & 0x10 != 0;
                b.set_analog_input2(0.0);
                b.set_temp(v);
                let ok2 = *b.temp() == exp && (b.dasr().bits() & 0x10 != 0) == c2;
                let okc = (c1 == (exp > b.analog_outputs()[0])) && (c2 == (exp > b.analog_outputs()[1]));
                if !(ok1 && ok2 && okc) && bad.is_none() {
                    bad = Some(format!("bits {:#010x} ({:?}): stored {:?}/{:?}, expected {}; comparator bits {}/{}", bits, v, b.analog_inputs(), b.temp(), exp, c1, c2));
                }
            }
            bad
        });
        for b in res.into_iter().flatten() {
            ev.violation("f32-sweep", "board:f32-sweep", b, json!({}));
        }
        ev.evaluations += 3 * (1u64 << 32);
        ev.class("f32-bit-patterns-x-3-setters", 3 * (1u64 << 32));
        ev.extra.insert("f32_sweep_exhaustive".into(), json!(true));
    }
    ev
}
