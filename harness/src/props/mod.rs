pub mod c08;
pub mod cpu;
pub mod c09;
pub mod c05;
pub mod c11;
pub mod c13;
