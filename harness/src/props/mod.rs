pub mod c08;
