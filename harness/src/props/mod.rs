pub mod c08;
pub mod cpu;
