//! C05 — stack/PC supervision and halt states are exact and absorbing.
//!
//! Lock-step with the instruction-level model, which records every value written to SP and PC;
//! the band table and the PC rule are written here.  A per-edge monitor checks that a Running
//! machine never has an invalid SP/PC.  At every halt: absorption under arbitrary stimuli,
//! continue semantics.
use crate::engine::*;
use crate::isa::Outcome;
use crate::mach::*;
use crate::progen_sem::*;
use emulator_2a_lib::compiler::Translator;
use emulator_2a_lib::machine::{Machine, MachineConfig, State, StepMode};
use emulator_2a_lib::parser::{AsmParser, Programsize, Stacksize};
use proptest::prelude::*;
use serde::{Deserialize, Serialize};
use serde_json::json;

/// forbidden band of each stack size (harness table, from the documentation):
/// size n forbids 0xF0-n-0x0F ..= 0xF0-n-0x02; every size forbids >= 0xF0
pub fn sp_valid(size_index: u8, sp: u8) -> bool {
    if sp >= 0xF0 {
        return false;
    }
    let n: u16 = [0, 16, 32, 48, 64][size_index as usize];
    if n == 0 {
        return true;
    }
    let lo = 0xF0 - n - 0x0F;
    let hi = 0xF0 - n - 0x02;
    !((sp as u16) >= lo && (sp as u16) <= hi)
}
pub fn pc_valid(limit: u8, pc: u8) -> bool {
    pc <= limit
}

#[derive(Clone, Debug, Serialize, Deserialize)]
pub enum Fill {
    Zero,
    Nops,
    Seed(u64),
}

#[derive(Clone, Debug, Serialize, Deserialize)]
pub enum Stim {
    ClockReal(u8),
    ClockAsm(u8),
    KeyInt,
    Input(u8, u8),
    DigitalIn(u8),
    /// voltage as f32 bit pattern (JSON cannot carry NaN)
    Temp(u32),
    Analog(u8, u32),
    Jumper(u8, bool),
    Uio(u8, bool),
}

#[derive(Clone, Debug, Serialize, Deserialize)]
pub struct SupCase {
    /// index into [0,16,32,48,64]
    pub stack: u8,
    /// program size limit; None = AUTO through `Machine::load` of a generated text
    pub limit: Option<u8>,
    /// load through text (parser + translator + Machine::load) instead of poking RAM
    pub via_text: bool,
    /// the machine never gets a program size (fresh machine with poked RAM, or a first program with
    /// `*PROGRAMSIZE NOSET`): `is_program_counter_valid` documents "if no program is loaded, the program
    /// counter can only be zero", i.e. the limit in force is 0
    #[serde(default)]
    pub never_sized: bool,
    pub prog: Vec<Tm>,
    /// extra bytes placed at fixed addresses after the program was laid out
    pub patches: Vec<(u8, u8)>,
    pub fill: Fill,
    pub inp: [u8; 4],
    pub max_instr: u16,
    pub stims: Vec<Stim>,
}

fn stim_strategy() -> impl Strategy<Value = Stim> {
    let volt = prop_oneof![(0u32..600).prop_map(|v| (v as f32 / 100.0).to_bits()), Just(f32::NAN.to_bits()), Just((-1.0f32).to_bits()), Just(f32::INFINITY.to_bits())];
    prop_oneof![
        3 => (1u8..20).prop_map(Stim::ClockReal),
        3 => (1u8..4).prop_map(Stim::ClockAsm),
        2 => Just(Stim::KeyInt),
        2 => (0u8..4, any::<u8>()).prop_map(|(i, v)| Stim::Input(i, v)),
        1 => any::<u8>().prop_map(Stim::DigitalIn),
        1 => volt.clone().prop_map(Stim::Temp),
        1 => (0u8..2, volt).prop_map(|(i, v)| Stim::Analog(i, v)),
        1 => (0u8..2, any::<bool>()).prop_map(|(i, v)| Stim::Jumper(i, v)),
        1 => (0u8..3, any::<bool>()).prop_map(|(i, v)| Stim::Uio(i, v)),
    ]
}

fn apply_stim(m: &mut Machine, s: &Stim) {
    match *s {
        Stim::ClockReal(n) => {
            m.set_step_mode(StepMode::Real);
            for _ in 0..n {
                m.trigger_key_clock();
            }
        }
        Stim::ClockAsm(n) => {
            m.set_step_mode(StepMode::Assembly);
            for _ in 0..n {
                m.trigger_key_clock();
            }
            m.set_step_mode(StepMode::Real);
        }
        Stim::KeyInt => m.trigger_key_interrupt(),
        Stim::Input(i, v) => match i {
            0 => m.set_input_fc(v),
            1 => m.set_input_fd(v),
            2 => m.set_input_fe(v),
            _ => m.set_input_ff(v),
        },
        Stim::DigitalIn(v) => m.set_digital_input1(v),
        Stim::Temp(v) => m.set_temp(f32::from_bits(v)),
        Stim::Analog(i, v) => {
            if i == 0 {
                m.set_analog_input1(f32::from_bits(v))
            } else {
                m.set_analog_input2(f32::from_bits(v))
            }
        }
        Stim::Jumper(i, v) => {
            if i == 0 {
                m.set_jumper1(v)
            } else {
                m.set_jumper2(v)
            }
        }
        Stim::Uio(i, v) => match i {
            0 => m.set_universal_input_output1(v),
            1 => m.set_universal_input_output2(v),
            _ => m.set_universal_input_output3(v),
        },
    }
}

fn tm_for_sup() -> impl Strategy<Value = Tm> {
    prop_oneof![
        6 => tm_any(),
        1 => Just(Tm::Stop),
        2 => prop_oneof![Just(0xD0u8), Just(0xD1), Just(0xDE), Just(0xDF), Just(0xC0), Just(0xC1), Just(0xCE), Just(0xCF), Just(0xB0), Just(0xB1), Just(0xBE), Just(0xBF), Just(0xA0), Just(0xA1), Just(0xAE), Just(0xAF), Just(0xEF), Just(0xF0), Just(0x00), Just(0xFF)].prop_map(Tm::LdSp),
        2 => (0u8..4).prop_map(Tm::Push),
        1 => any::<u8>().prop_map(Tm::Call),
    ]
}

pub fn sup_strategy() -> impl Strategy<Value = SupCase> {
    (
        0u8..5,
        prop_oneof![2 => any::<u8>().prop_map(Some), 2 => prop::sample::select(vec![0u8, 1, 2, 0xEE, 0xEF, 0xF0, 255]).prop_map(Some), 1 => Just(None)],
        prop::collection::vec(tm_for_sup(), 1..40),
        prop::collection::vec((any::<u8>(), prop_oneof![Just(0u8), Just(1u8), any::<u8>()]), 0..4),
        prop_oneof![Just(Fill::Zero), Just(Fill::Nops), any::<u64>().prop_map(Fill::Seed)],
        [byte_biased(), byte_biased(), byte_biased(), byte_biased()],
        prop::collection::vec(stim_strategy(), 0..8),
        any::<bool>(),
    )
        .prop_map(|(stack, limit, prog, patches, fill, inp, stims, via_text)| {
            let code_len = assemble(&prog).len();
            // limit relative to the image in half of the cases (the interesting boundary)
            let limit = match limit {
                Some(l) if l % 2 == 0 => Some(((code_len as i32) + (l as i32 % 7) - 3).clamp(0, 255) as u8),
                other => other,
            };
            // one case in eight runs on a machine that never got a program size
            let never_sized = inp[0] & 7 == 5;
            SupCase { stack, limit, via_text: via_text || (limit.is_none() && !never_sized), never_sized, prog, patches, fill, inp, max_instr: 300, stims }
        })
}

/// Build the machine for a case; returns (machine, effective pc limit).
fn build(c: &SupCase) -> Result<(Machine, u8), String> {
    let mut image = assemble(&c.prog);
    image.truncate(0xF0);
    let mut m = Machine::new(MachineConfig::default());
    let limit;
    if c.via_text {
        // text route: only the image, RAM after it is zero (load resets RAM)
        let mut ram = vec![0u8; 0];
        ram.extend_from_slice(&image);
        for (a, v) in &c.patches {
            if (*a as usize) < ram.len() {
                ram[*a as usize] = *v;
            }
        }
        if ram.is_empty() {
            ram.push(0x01);
        }
        let size = ["0", "16", "32", "48", "64"][c.stack as usize];
        let psize = match c.limit {
            _ if c.never_sized => "NOSET".to_string(),
            Some(n) => n.to_string(),
            None => "AUTO".to_string(),
        };
        let mut text = format!("#! mrasm\n*STACKSIZE {}\n*PROGRAMSIZE {}\n", size, psize);
        for chunk in ram.chunks(16) {
            text.push_str(" .DB ");
            text.push_str(&chunk.iter().map(|b| b.to_string()).collect::<Vec<_>>().join(","));
            text.push('\n');
        }
        let asm = AsmParser::parse(&text).map_err(|e| format!("generated text rejected: {}", e))?;
        let bc = Translator::compile(&asm);
        m.load(bc);
        limit = match c.limit {
            _ if c.never_sized => 0,
            Some(n) => n,
            None => ram.len().min(255) as u8,
        };
        // cross-check what load installed
        match m.programsize() {
            Programsize::Auto if c.never_sized => {}
            Programsize::Size(n) if n == limit && !c.never_sized => {}
            other => return Err(format!("load installed program size {:?}, expected Size({})", other, limit)),
        }
        if m.stacksize() != STACKSIZES[c.stack as usize] {
            return Err(format!("load installed stack size {:?}", m.stacksize()));
        }
    } else {
        let mut ram = match c.fill {
            Fill::Zero => [0u8; 0xF0],
            Fill::Nops => [0x02u8; 0xF0],
            Fill::Seed(s) => ram_from_seed(s),
        };
        ram[..image.len()].copy_from_slice(&image);
        for (a, v) in &c.patches {
            if *a <= 0xEF {
                ram[*a as usize] = *v;
            }
        }
        limit = if c.never_sized { 0 } else { c.limit.unwrap_or(image.len().min(255) as u8) };
        m.raw_mut().set_stacksize(STACKSIZES[c.stack as usize]);
        if !c.never_sized {
            m.raw_mut().set_programsize(Programsize::Size(limit));
        }
        m.raw_mut().bus_mut().memory_mut().copy_from_slice(&ram);
    }
    m.set_input_fc(c.inp[0]);
    m.set_input_fd(c.inp[1]);
    m.set_input_fe(c.inp[2]);
    m.set_input_ff(c.inp[3]);
    Ok((m, limit))
}

pub struct SupStats {
    pub instructions: u64,
    pub edges: u64,
    pub end: &'static str,
    pub halted_by_supervision: bool,
    pub band_edge_touched: bool,
    pub continued: u32,
    pub absorbed_stims: u64,
}

/// One clock edge under the observational monitor:
/// (i)   Running => SP and PC valid;
/// (ii)  an edge that changed SP or PC to an invalid value ends ErrorStopped (not Running, not Stopped);
/// (iii) Running -> ErrorStopped only with an invalid SP/PC or opcode 0x00 in the instruction register,
///       Running -> Stopped only with opcode 0x01 in the instruction register and valid SP/PC.
fn edge(m: &mut Machine, stack: u8, limit: u8, stats: &mut SupStats) -> Result<(), (String, String)> {
    let before = *m.registers().content();
    let st_before = m.state();
    m.raw_mut().trigger_clock_edge();
    stats.edges += 1;
    let c = *m.registers().content();
    let st = m.state();
    let ir = m.verif_snapshot().instruction_register;
    let sp_ok = sp_valid(stack, c[5]);
    let pc_ok = pc_valid(limit, c[3]);
    if st == State::Running {
        if !sp_ok {
            return Err(("sup:running-with-invalid-sp".into(), format!("machine Running with SP={:02X} inside the forbidden band of stack size index {}", c[5], stack)));
        }
        if !pc_ok {
            return Err(("sup:running-with-invalid-pc".into(), format!("machine Running with PC={:02X} above the program size limit {:02X}", c[3], limit)));
        }
    }
    if st_before == State::Running {
        let wrote = c[5] != before[5] || c[3] != before[3];
        if wrote && (!sp_ok || !pc_ok) && st != State::ErrorStopped {
            return Err((
                format!("sup:invalid-write-not-error-stopped:{:?}", st),
                format!("edge wrote SP={:02X} PC={:02X} (before SP={:02X} PC={:02X}), which breaks the rule (stack index {}, pc limit {:02X}), but the machine reports {:?}", c[5], c[3], before[5], before[3], stack, limit, st),
            ));
        }
        if st == State::ErrorStopped && sp_ok && pc_ok && ir != 0x00 {
            return Err(("sup:spurious-error-stop".into(), format!("error stop with valid SP={:02X} PC={:02X} and IR={:02X}", c[5], c[3], ir)));
        }
        if st == State::Stopped && ir != 0x01 {
            return Err(("sup:spurious-stop".into(), format!("regular stop with IR={:02X}", ir)));
        }
    } else if st != st_before {
        return Err(("sup:halt-left-by-clock".into(), format!("clock edge moved a halted machine from {:?} to {:?}", st_before, st)));
    }
    Ok(())
}

fn absorption(m: &Machine, stims: &[Stim], stats: &mut SupStats) -> Result<(), (String, String)> {
    let halted = m.state();
    let mut t = m.clone();
    for s in stims {
        let before = t.clone();
        apply_stim(&mut t, s);
        stats.absorbed_stims += 1;
        if t.state() != halted {
            return Err(("sup:halt-left-by-stimulus".into(), format!("halted machine ({:?}) changed state to {:?} by {:?}", halted, t.state(), s)));
        }
        if matches!(s, Stim::ClockReal(_) | Stim::ClockAsm(_)) && t != before {
            return Err(("sup:halted-machine-changed-by-clock".into(), format!("clock edges changed a halted machine ({:?}), stimulus {:?}", halted, s)));
        }
    }
    if halted == State::ErrorStopped {
        t.trigger_key_continue();
        if t.state() != State::ErrorStopped {
            return Err(("sup:continue-leaves-error-stop".into(), "continue key left the error stop".into()));
        }
    }
    Ok(())
}

pub fn check_sup(c: &SupCase) -> (Verdict, SupStats) {
    let mut stats = SupStats { instructions: 0, edges: 0, end: "limit", halted_by_supervision: false, band_edge_touched: false, continued: 0, absorbed_stims: 0 };
    let (mut m, limit) = match build(c) {
        Ok(x) => x,
        Err(e) => return (Verdict::Fail("sup:build".into(), e), stats),
    };
    macro_rules! fail {
        ($e:expr) => {{
            let (s, d) = $e;
            return (Verdict::Fail(s, d), stats);
        }};
    }
    // to the first boundary (reset sequence), monitored
    let mut guard = 0;
    while !m.is_instruction_done() && m.state() == State::Running {
        if let Err(e) = edge(&mut m, c.stack, limit, &mut stats) {
            fail!(e);
        }
        guard += 1;
        if guard > 64 {
            fail!(("sup:noboundary".to_string(), "no first boundary".to_string()));
        }
    }
    if m.state() != State::Running {
        fail!(("sup:halt-during-reset-sequence".to_string(), format!("machine {:?} before the first instruction", m.state())));
    }
    let mut r = model_from_machine(&m);
    for _ in 0..c.max_instr {
        let up = upcoming(&r);
        let out = r.step();
        if matches!(out, Outcome::Hang | Outcome::Undefined) {
            // outside the instruction set the model has nothing to say, but the observational monitor
            // holds for every clock edge whatever is executed: keep watching for a while
            for _ in 0..600 {
                if m.state() != State::Running {
                    break;
                }
                if let Err(e) = edge(&mut m, c.stack, limit, &mut stats) {
                    fail!(e);
                }
            }
            if m.state() != State::Running {
                if let Err(e) = absorption(&m, &c.stims, &mut stats) {
                    fail!(e);
                }
                if m.state() == State::Stopped {
                    let mut t = m.clone();
                    t.trigger_key_continue();
                    let mut st2 = SupStats { instructions: 0, edges: 0, end: "", halted_by_supervision: false, band_edge_touched: false, continued: 0, absorbed_stims: 0 };
                    for _ in 0..40 {
                        if t.state() != State::Running {
                            break;
                        }
                        if let Err(e) = edge(&mut t, c.stack, limit, &mut st2) {
                            fail!(e);
                        }
                    }
                    stats.edges += st2.edges;
                }
            }
            stats.end = "undefined-byte";
            break;
        }
        // instruction-level expectation from the *final* SP/PC only; intermediate micro-level writes are
        // judged by the per-edge monitor, which observes them
        let inval_sp = !sp_valid(c.stack, r.sp);
        let inval_pc = !pc_valid(limit, r.r[3]);
        let inval = inval_sp || inval_pc;
        for sp in &r.sp_trace {
            for d in [1u8, 255u8] {
                if sp_valid(c.stack, *sp) && !sp_valid(c.stack, sp.wrapping_add(d)) {
                    stats.band_edge_touched = true;
                }
            }
        }
        let expected = match out {
            Outcome::ErrorOp0 => State::ErrorStopped,
            Outcome::Stopped => {
                if inval {
                    State::ErrorStopped
                } else {
                    State::Stopped
                }
            }
            _ => {
                if inval {
                    State::ErrorStopped
                } else {
                    State::Running
                }
            }
        };
        // run the machine edge by edge to the next boundary or halt
        let mut n = 0;
        let mut left = false;
        loop {
            if m.state() != State::Running {
                break;
            }
            if left && m.is_instruction_done() {
                break;
            }
            if !m.is_instruction_done() {
                left = true;
            }
            if let Err(e) = edge(&mut m, c.stack, limit, &mut stats) {
                fail!(e);
            }
            if !m.is_instruction_done() {
                left = true;
            }
            n += 1;
            if n > 4000 {
                fail!(("sup:nocomplete".to_string(), format!("{} did not complete", group_name(&up))));
            }
        }
        stats.instructions += 1;
        let st = m.state();
        // An error stop that the monitor accepted (a micro-level write of an invalid SP/PC in the middle
        // of the instruction, e.g. the PC increment of an operand fetch or a staged value) is legitimate
        // even when the instruction-level final values are valid: the run ends there.
        if st == State::ErrorStopped && expected != State::ErrorStopped {
            let cur = *m.registers().content();
            if !sp_valid(c.stack, cur[5]) || !pc_valid(limit, cur[3]) {
                stats.halted_by_supervision = true;
                if let Err(e) = absorption(&m, &c.stims, &mut stats) {
                    fail!(e);
                }
                stats.end = "error-stopped-mid-instruction";
                break;
            }
        }
        if st != expected {
            let why = if inval_sp {
                "sp"
            } else if inval_pc {
                "pc"
            } else {
                "none"
            };
            let sig = format!("sup:state:{:?}-expected-{:?}:{}:{}", st, expected, outcome_name(out), why);
            fail!((
                sig,
                format!(
                    "after {} ({:02X} {:02X}) at instruction #{}: machine {:?}, expected {:?} (model outcome {}, SP writes {:02X?}, PC writes {:02X?}, stack size index {}, pc limit {:02X})",
                    group_name(&up), up.op, up.op2, stats.instructions, st, expected, outcome_name(out), r.sp_trace, r.pc_trace, c.stack, limit
                )
            ));
        }
        match st {
            State::Running => {
                if !diff_state(&m, &r).is_empty() {
                    stats.end = "semantic-divergence(C01's subject)";
                    break;
                }
            }
            State::ErrorStopped => {
                stats.halted_by_supervision = out != Outcome::ErrorOp0;
                if let Err(e) = absorption(&m, &c.stims, &mut stats) {
                    fail!(e);
                }
                stats.end = "error-stopped";
                break;
            }
            State::Stopped => {
                if let Err(e) = absorption(&m, &c.stims, &mut stats) {
                    fail!(e);
                }
                if !diff_state(&m, &r).is_empty() {
                    fail!(("sup:state-at-stop".to_string(), format!("state at STOP differs from the model: {:?}", diff_state(&m, &r))));
                }
                // continue: resumes with the next instruction; lock-step simply goes on
                m.trigger_key_continue();
                if m.state() != State::Running {
                    fail!(("sup:continue-does-not-resume".to_string(), "continue key did not leave the regular stop".to_string()));
                }
                stats.continued += 1;
                // the stopped machine sits inside the (empty) routine of opcode 0x01: finish it, monitored,
                // before the next instruction is compared
                let mut g = 0;
                while !m.is_instruction_done() && m.state() == State::Running {
                    if let Err(e) = edge(&mut m, c.stack, limit, &mut stats) {
                        fail!(e);
                    }
                    g += 1;
                    if g > 64 {
                        fail!(("sup:no-boundary-after-continue".to_string(), "no instruction boundary after continue".to_string()));
                    }
                }
                if m.state() != State::Running {
                    fail!(("sup:halt-right-after-continue".to_string(), format!("machine {:?} right after continue, before any further instruction was fetched", m.state())));
                }
                if !diff_state(&m, &r).is_empty() {
                    fail!(("sup:state-after-continue".to_string(), format!("state after continue differs from the state at the stop: {:?}", diff_state(&m, &r))));
                }
                if stats.continued > 6 {
                    stats.end = "stopped-often";
                    break;
                }
            }
        }
    }
    (Verdict::Pass, stats)
}

/// enumerated families (complete sweeps)
fn families() -> Vec<SupCase> {
    let mut v = vec![];
    let base = |stack: u8, limit: u8, prog: Vec<Tm>, fill: Fill, patches: Vec<(u8, u8)>| SupCase {
        stack,
        limit: Some(limit),
        via_text: false,
        never_sized: false,
        prog,
        patches,
        fill,
        inp: [0x02, 0x02, 0x01, 0x00],
        max_instr: 300,
        stims: vec![Stim::ClockReal(3), Stim::KeyInt, Stim::ClockAsm(2), Stim::Input(3, 0x55)],
    };
    // LDSP v for every v x follow-ups, all five sizes
    for stack in 0..5u8 {
        for sp in 0..=255u8 {
            let follow: Vec<Vec<Tm>> = vec![
                vec![Tm::Push(0), Tm::Push(1), Tm::Stop],
                vec![Tm::Pop(0), Tm::Pop(1), Tm::Stop],
                vec![Tm::Call(9), Tm::Stop, Tm::Nop(0), Tm::Nop(0), Tm::Nop(0), Tm::Stop],
                vec![Tm::Pop(3)],
                vec![Tm::PushF, Tm::PopF, Tm::Stop],
                vec![Tm::Nop(0), Tm::Stop],
                // walk down / up through the band
                vec![Tm::Push(0), Tm::Jr(0, 0xFD)],
                vec![Tm::Pop(0), Tm::Jr(0, 0xFD)],
                vec![Tm::Call(3)],
            ];
            for f in follow {
                let mut prog = vec![Tm::LdSp(sp)];
                prog.extend(f);
                v.push(base(stack, 0xEF, prog, Fill::Nops, vec![]));
            }
        }
    }
    // every PC limit x STOP / 0x00 / NOP at limit-1, limit, limit+1 on a NOP sled
    for limit in 0..=255u8 {
        for delta in [-1i32, 0, 1] {
            for byte in [0x01u8, 0x00, 0x02] {
                let a = limit as i32 + delta;
                if !(0..=0xEF).contains(&a) {
                    continue;
                }
                v.push(base(1, limit, vec![], Fill::Nops, vec![(a as u8, byte)]));
            }
        }
    }
    // a halting byte (0x01 / 0x00) as SECOND opcode byte of a two-byte instruction at limit-1, limit, limit+1
    for limit in 1..=0xEEu8 {
        for delta in [-1i32, 0, 1] {
            for byte in [0x01u8, 0x00] {
                let a = limit as i32 + delta;
                if !(1..=0xEF).contains(&a) {
                    continue;
                }
                v.push(base(2, limit, vec![], Fill::Nops, vec![((a - 1) as u8, 0xF0), (a as u8, byte)]));
            }
        }
    }
    // jumps to every address under several limits
    for limit in [0u8, 1, 2, 0x10, 0x7F, 0xEE, 0xEF, 0xF0, 0xFE, 255] {
        for target in 0..=255u8 {
            // JR: offset relative to address 2
            v.push(base(1, limit, vec![Tm::Jr(0, target.wrapping_sub(2))], Fill::Nops, vec![(target, 0x01)]));
            // JMP target = MOV PC, #target
            v.push(base(1, limit, vec![Tm::Two(0x10, 2, 3, target, 0, 3, 0)], Fill::Nops, vec![(target, 0x01)]));
        }
    }
    // a machine that never got a program size (fresh + poked RAM, or NOSET as the first program): every
    // first byte, both routes, NOP and zero fill
    for via_text in [false, true] {
        for first in 0..=255u8 {
            for fill in [Fill::Nops, Fill::Zero] {
                let mut c = base(1, 0, vec![Tm::Raw(first), Tm::Raw(0x10), Tm::Nop(0), Tm::Stop], fill, vec![]);
                c.never_sized = true;
                c.via_text = via_text;
                v.push(c);
            }
        }
    }
    v
}

pub fn run(ctx: &Ctx) -> Evidence {
    let mut ev = Evidence::new(
        "exploration",
        "supervised lock-step runs: (1) enumerated families — LDSP v for all 256 v x 9 follow-ups x 5 stack sizes, every PC limit x STOP/0x00/NOP at limit-1/limit/limit+1, jumps to every address under 10 limits; (2) proptest-generated programs x 5 stack sizes x program-size limits (fixed, image-relative, AUTO through load) with stimuli applied at every halt; monitored after every clock edge; non-trivial = run halted by supervision (not by opcode 0) or touching a band edge while running; distinct by hash of the case",
    );
    ev.assumptions.push("band table and PC rule written in the harness (props/c05.rs) from the documentation".into());
    ev.assumptions.push("reference model harness/src/isa.rs records every SP/PC write of an instruction".into());
    if let Some(path) = &ctx.replay {
        let doc: serde_json::Value = serde_json::from_str(&std::fs::read_to_string(path).expect("replay")).expect("json");
        let c: SupCase = serde_json::from_value(doc["case"].clone()).expect("case");
        ev.evaluations = 1;
        if let (Verdict::Fail(s, d), _) = check_sup(&c) {
            ev.violation("sup", &s, d, doc["case"].clone());
        }
        return ev;
    }
    let known: Vec<String> = load_known("C05").into_iter().map(|k| k.signature).collect();

    // (1) families
    let fam = families();
    let res = par_chunks(ctx.threads, 64, |k| {
        let mut out = vec![];
        let mut e = Evidence::new("", "");
        for (i, c) in fam.iter().enumerate() {
            if i % 64 != k {
                continue;
            }
            let (v, st) = catch(|| check_sup(c)).unwrap_or_else(|p| (Verdict::Fail(panic_signature(&p), format!("panic: {}", p)), SupStats { instructions: 0, edges: 0, end: "panic", halted_by_supervision: false, band_edge_touched: false, continued: 0, absorbed_stims: 0 }));
            e.evaluations += 1;
            *e.classes.entry(format!("family:end:{}", st.end)).or_insert(0) += 1;
            *e.classes.entry("monitored-edges".into()).or_insert(0) += st.edges;
            *e.classes.entry("absorption-stimuli".into()).or_insert(0) += st.absorbed_stims;
            if st.halted_by_supervision || st.band_edge_touched {
                e.nontrivial(&(i as u64, 0xFAu8));
            }
            if let Verdict::Fail(s, d) = v {
                out.push((c.clone(), s, d));
            }
        }
        (out, e)
    });
    for (out, e) in res {
        ev.merge(e);
        for (c, s, d) in out {
            ev.violation("sup", &s, d, serde_json::to_value(&c).unwrap());
        }
    }
    ev.extra.insert("family_cases".into(), json!(fam.len()));
    ev.sample(json!({"part": "family", "case": serde_json::to_value(&fam[7]).unwrap()}));

    // (2) random programs
    let n: u64 = ctx.tier.pick(300_000, 10_000_000);
    let collected = std::sync::Mutex::new(Evidence::new("", ""));
    let res = par_search(ctx.threads, 32, ctx.seed, n, sup_strategy, &known, |c, first, _| {
        let (v, st) = check_sup(c);
        if first {
            let mut e = collected.lock().unwrap();
            e.evaluations += 1;
            *e.classes.entry(format!("random:end:{}", st.end)).or_insert(0) += 1;
            *e.classes.entry("monitored-edges".into()).or_insert(0) += st.edges;
            *e.classes.entry("absorption-stimuli".into()).or_insert(0) += st.absorbed_stims;
            *e.classes.entry("continue-key-resumes".into()).or_insert(0) += st.continued as u64;
            if c.via_text {
                *e.classes.entry("random:loaded-through-text".into()).or_insert(0) += 1;
            }
            if st.halted_by_supervision || st.band_edge_touched {
                e.nontrivial(&serde_json::to_string(c).unwrap());
            }
            if e.samples.len() < 4 && st.halted_by_supervision {
                let s = json!({"part": "random", "stack_index": c.stack, "limit": c.limit, "program_bytes": hex(&assemble(&c.prog)), "instructions": st.instructions, "end": st.end});
                e.samples.push(s);
            }
        }
        v
    });
    for r in res {
        if let Some((c, s, d)) = r.failure {
            ev.violation("sup", &s, d, serde_json::to_value(&c).unwrap());
        }
        for (c, s, d) in r.tolerated {
            ev.violation("sup", &s, d, serde_json::to_value(&c).unwrap());
        }
    }
    ev.merge(collected.into_inner().unwrap());
    ev
}
