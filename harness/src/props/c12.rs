//! C12 — run/verify report exactly what the stepped machine does, incl. exit status.
//! In-process: RunnerConfig::run / RunExpectations::verify against a stepping loop written here.
//! Process level: the real `2a-emulator` binary built from /repo (hooks off) is spawned.
use crate::engine::*;
use crate::progen_sem::*;
use crate::props::c13::image_text;
use emulator_2a_lib::compiler::Translator;
use emulator_2a_lib::machine::{Machine, MachineConfig, State};
use emulator_2a_lib::parser::AsmParser;
use emulator_2a_lib::runner::{RunExpectationsBuilder, RunnerConfigBuilder};
use proptest::prelude::*;
use serde::{Deserialize, Serialize};
use serde_json::json;
use std::process::Command;

pub const BIN: &str = "/verif/target/repo-bin/debug/2a-emulator";

#[derive(Clone, Debug, Serialize, Deserialize)]
pub struct Case {
    /// program text
    pub program: String,
    pub cycles: usize,
    pub interrupts: Vec<usize>,
    pub resets: Vec<usize>,
    /// di1, fc, fd, fe, ff
    pub bytes: [u8; 5],
    /// temp, ai1, ai2 as text accepted by the CLI
    pub volts: [String; 3],
    /// j1, j2, uio1, uio2, uio3
    pub flags: [bool; 5],
    /// radix used to spell numbers on the command line: 0 dec, 1 0x, 2 0b
    pub radix: u8,
    /// expectations: for state/fe/ff: 0 = none, 1 = the actual value, 2 = another value
    pub expect: [u8; 3],
    pub expect_salt: u8,
}

fn volt_text() -> impl Strategy<Value = String> {
    prop_oneof![
        4 => (0u32..700).prop_map(|v| format!("{}.{:02}", v / 100, v % 100)),
        1 => prop::sample::select(vec!["0", "5", "5.0", "2.55", "1e0", "-1", "-0.5", "7", "inf", "NaN", "0.1e1", "00.5"]).prop_map(|s| s.to_string()),
    ]
}

fn program_text() -> impl Strategy<Value = String> {
    let repo_programs: Vec<String> = std::fs::read_dir("/repo/testing/programs")
        .map(|d| {
            let mut v: Vec<_> = d.filter_map(|e| e.ok()).map(|e| e.path()).filter(|p| p.extension().map(|x| x == "asm").unwrap_or(false)).collect();
            v.sort();
            v.iter().filter_map(|p| std::fs::read_to_string(p).ok()).collect()
        })
        .unwrap_or_default();
    let gen = (
        prop::collection::vec(prop_oneof![8 => tm_any(), 2 => tm_tame(0x80, 0xEF), 1 => Just(Tm::Stop), 1 => (0xFEu8..=0xFF, 0u8..3).prop_map(|(a, r)| Tm::StAbs(a, r))], 1..50),
        any::<bool>(),
        0u8..5,
        prop_oneof![Just(None), (0u8..=255).prop_map(Some)],
        0u8..8,
    )
        .prop_map(|(p, prelude, stack, psize, style)| {
            let mut prog = vec![];
            if prelude {
                // make key interrupts effective: LDSP, enable bit, EI; vector at 2 is whatever follows
                prog.extend_from_slice(&[Tm::Jr(0, 2), Tm::Nop(0), Tm::Reti, Tm::LdSp(0xE0), Tm::LdConst(0, 1), Tm::StAbs(0xF9, 0), Tm::Ei(0)]);
            }
            prog.extend(p);
            let mut img = assemble(&prog);
            img.truncate(0xF0);
            // the program *file* is part of the CLI's input: all three line terminators the grammar knows,
            // a commented header, comments behind lines
            let text = image_text(&img, stack, psize);
            let text = if style & 4 != 0 { text.replacen("#! mrasm", "#! mrasm ; generated", 1) } else { text };
            let text = if style & 4 != 0 { text.replace("\n .DB", " ; data\n .DB") } else { text };
            match style & 3 {
                2 => text.replace('\n', "\r\n"),
                3 => text.replace('\n', "\r"),
                _ => text,
            }
        });
    if repo_programs.is_empty() {
        gen.boxed()
    } else {
        prop_oneof![5 => gen, 1 => prop::sample::select(repo_programs)].boxed()
    }
}

pub fn case_strategy(max_cycles: usize) -> impl Strategy<Value = Case> {
    (
        program_text(),
        prop_oneof![1 => Just(0usize), 1 => 1usize..20, 4 => 0..max_cycles],
        prop::collection::vec(prop_oneof![3 => 0usize..200, 1 => 0usize..3], 0..6),
        prop::collection::vec(prop_oneof![3 => 0usize..200, 1 => 0usize..3], 0..4),
        [any::<u8>(), any::<u8>(), any::<u8>(), any::<u8>(), any::<u8>()],
        [volt_text(), volt_text(), volt_text()],
        [any::<bool>(), any::<bool>(), any::<bool>(), any::<bool>(), any::<bool>()],
        0u8..3,
        [0u8..3, 0u8..3, 0u8..3],
        any::<u8>(),
    )
        .prop_map(|(program, cycles, mut interrupts, mut resets, bytes, volts, flags, radix, expect, expect_salt)| {
            // schedule relative to the budget: inside, at the end, beyond
            for x in interrupts.iter_mut().chain(resets.iter_mut()) {
                if *x > cycles + 5 {
                    *x %= cycles + 6;
                }
            }
            Case { program, cycles, interrupts, resets, bytes, volts, flags, radix, expect, expect_salt }
        })
}

fn machine_config(c: &Case) -> MachineConfig {
    let v: Vec<f32> = c.volts.iter().map(|s| s.parse::<f32>().expect("volt text")).collect();
    MachineConfig {
        digital_input1: c.bytes[0],
        input_fc: c.bytes[1],
        input_fd: c.bytes[2],
        input_fe: c.bytes[3],
        input_ff: c.bytes[4],
        temp: v[0],
        analog_input1: v[1],
        analog_input2: v[2],
        jumper1: c.flags[0],
        jumper2: c.flags[1],
        universal_input_output1: c.flags[2],
        universal_input_output2: c.flags[3],
        universal_input_output3: c.flags[4],
    }
}

/// The reference: create, load, configure with the 13 setters one by one, then step.
/// Returns None if the program is not accepted.
fn reference(c: &Case) -> Option<(Machine, usize)> {
    let asm = AsmParser::parse(&c.program).ok()?;
    let bc = Translator::compile(&asm);
    let mut m = Machine::new(MachineConfig::default());
    m.load(bc);
    let cfg = machine_config(c);
    m.set_input_fc(cfg.input_fc);
    m.set_input_fd(cfg.input_fd);
    m.set_input_fe(cfg.input_fe);
    m.set_input_ff(cfg.input_ff);
    m.set_digital_input1(cfg.digital_input1);
    m.set_temp(cfg.temp);
    m.set_jumper1(cfg.jumper1);
    m.set_jumper2(cfg.jumper2);
    m.set_analog_input1(cfg.analog_input1);
    m.set_analog_input2(cfg.analog_input2);
    m.set_universal_input_output1(cfg.universal_input_output1);
    m.set_universal_input_output2(cfg.universal_input_output2);
    m.set_universal_input_output3(cfg.universal_input_output3);
    let mut i = 0usize;
    while i < c.cycles {
        if c.interrupts.contains(&i) {
            m.trigger_key_interrupt();
        }
        if c.resets.contains(&i) {
            m.cpu_reset();
        }
        m.trigger_key_clock();
        i += 1;
        if m.state() != State::Running {
            break;
        }
    }
    Some((m, i))
}

fn state_name(s: State) -> &'static str {
    match s {
        State::Running => "running",
        State::Stopped => "stopped",
        State::ErrorStopped => "error",
    }
}

struct Expect {
    state: Option<State>,
    fe: Option<u8>,
    ff: Option<u8>,
    holds: bool,
}

fn expectations(c: &Case, m: &Machine) -> Expect {
    let actual_state = m.state();
    let other_state = match (actual_state, c.expect_salt % 2) {
        (State::Running, 0) => State::Stopped,
        (State::Running, _) => State::ErrorStopped,
        (State::Stopped, 0) => State::Running,
        (State::Stopped, _) => State::ErrorStopped,
        (State::ErrorStopped, 0) => State::Running,
        (State::ErrorStopped, _) => State::Stopped,
    };
    let pick = |k: u8, actual: u8| match k {
        0 => None,
        1 => Some(actual),
        _ => Some(actual.wrapping_add(1 + c.expect_salt % 254)),
    };
    let state = match c.expect[0] {
        0 => None,
        1 => Some(actual_state),
        _ => Some(other_state),
    };
    let fe = pick(c.expect[1], m.bus().output_fe());
    let ff = pick(c.expect[2], m.bus().output_ff());
    let holds = c.expect.iter().all(|k| *k != 2);
    Expect { state, fe, ff, holds }
}

pub struct Info {
    pub accepted: bool,
    pub halted_early: bool,
    pub event_inside: bool,
    pub mismatching_expectation: bool,
}

pub fn check_inprocess(c: &Case) -> (Verdict, Info) {
    let mut info = Info { accepted: false, halted_early: false, event_inside: false, mismatching_expectation: false };
    let r = catch(|| reference(c));
    let reference = match r {
        Ok(x) => x,
        Err(_) => return (Verdict::Pass, info), // crash shapes are C06's subject
    };
    let cfg = RunnerConfigBuilder::default()
        .with_machine_config(machine_config(c))
        .with_max_cycles(c.cycles)
        .with_resets(c.resets.clone())
        .with_interrupts(c.interrupts.clone())
        .with_program(&c.program)
        .build()
        .expect("runner config");
    let res = match catch(|| cfg.run()) {
        Ok(r) => r,
        Err(p) => return (Verdict::Fail(format!("run:{}", panic_signature(&p)), p), info),
    };
    match (reference, res) {
        (None, Err(_)) => (Verdict::Pass, info),
        (None, Ok(_)) => (Verdict::Fail("run:unparsable-program-ran".into(), "run() succeeded on a program the parser rejects".into()), info),
        (Some(_), Err(e)) => (Verdict::Fail("run:accepted-program-refused".into(), format!("run() failed: {}", e)), info),
        (Some((m, n)), Ok(r)) => {
            info.accepted = true;
            info.halted_early = n < c.cycles;
            info.event_inside = c.interrupts.iter().chain(c.resets.iter()).any(|x| *x < n);
            if r.emulated_cycles != n {
                return (Verdict::Fail("run:cycle-count".into(), format!("reported {} cycles, {} clock edges are issued by the documented loop (budget {}, final state {:?})", r.emulated_cycles, n, c.cycles, m.state())), info);
            }
            if r.machine != m {
                let what = if r.machine.registers().content() != m.registers().content() {
                    "registers"
                } else if r.machine.bus().memory()[..] != m.bus().memory()[..] {
                    "ram"
                } else if r.machine.state() != m.state() {
                    "state"
                } else if r.machine.bus().board() != m.bus().board() {
                    "board"
                } else if (0xFCu8..=0xFF).any(|a| r.machine.bus().read(a) != m.bus().read(a)) {
                    "input-registers"
                } else {
                    "other"
                };
                return (Verdict::Fail(format!("run:final-machine:{}", what), format!("final machine differs from the stepped reference in {} (budget {}, interrupts {:?}, resets {:?})", what, c.cycles, c.interrupts, c.resets)), info);
            }
            let e = expectations(c, &m);
            info.mismatching_expectation = !e.holds;
            let mut b = RunExpectationsBuilder::default();
            if let Some(s) = e.state {
                b.expect_state(s);
            }
            if let Some(v) = e.fe {
                b.expect_output_fe(v);
            }
            if let Some(v) = e.ff {
                b.expect_output_ff(v);
            }
            let ex = b.build().expect("expectations");
            let ok = ex.verify(&r).is_ok();
            if ok != e.holds {
                return (
                    Verdict::Fail(
                        if ok { "verify:passes-with-mismatch".into() } else { "verify:fails-without-mismatch".into() },
                        format!("verify() = {} for expectations state {:?} fe {:?} ff {:?} against final state {:?} FE {} FF {}", ok, e.state, e.fe, e.ff, m.state(), m.bus().output_fe(), m.bus().output_ff()),
                    ),
                    info,
                );
            }
            if let Verdict::Fail(sg, d) = reuse_check(c) {
                return (Verdict::Fail(sg, d), info);
            }
            (Verdict::Pass, info)
        }
    }
}

/// "A run ... ends in exactly the machine state obtained by creating a machine with that program and
/// configuration": also for a configuration value that has run before and whose (public) fields were
/// changed since — the same value run twice gives the same result, and after changing program, budget
/// and schedules the next run is the run of the *new* settings.
fn reuse_check(c: &Case) -> Verdict {
    const OTHER: &str = "#! mrasm\n LD R0, 0x22\n ST (0xFE), R0\n INC R0\n ST (0xFF), R0\n STOP\n";
    let mut cfg = RunnerConfigBuilder::default()
        .with_machine_config(machine_config(c))
        .with_max_cycles(c.cycles)
        .with_resets(c.resets.clone())
        .with_interrupts(c.interrupts.clone())
        .with_program(&c.program)
        .build()
        .expect("runner config");
    let first = match catch(|| cfg.run().map(|r| (r.machine, r.emulated_cycles))) {
        Ok(Ok(x)) => x,
        _ => return Verdict::Pass, // judged by the caller
    };
    match catch(|| cfg.run().map(|r| (r.machine, r.emulated_cycles))) {
        Ok(Ok(second)) => {
            if second != first {
                return Verdict::Fail("run:second-run-of-the-same-config-differs".into(), "running the same configuration value twice gives two different results".into());
            }
        }
        Ok(Err(e)) => return Verdict::Fail("run:second-run-of-the-same-config-differs".into(), format!("second run failed: {}", e)),
        Err(p) => return Verdict::Fail(format!("run:{}", panic_signature(&p)), p),
    }
    // change the settings of the used value
    let mut c2 = c.clone();
    c2.program = if c.expect_salt % 3 == 0 { c.program.clone() } else { OTHER.to_string() };
    c2.cycles = c.cycles / 2 + (c.expect_salt as usize % 40);
    c2.interrupts = c.resets.clone();
    c2.resets = c.interrupts.iter().map(|x| x / 2).collect();
    cfg.program = &c2.program;
    cfg.max_cycles = c2.cycles;
    cfg.interrupts = c2.interrupts.clone();
    cfg.resets = c2.resets.clone();
    let reference = match catch(|| reference(&c2)) {
        Ok(Some(x)) => x,
        _ => return Verdict::Pass,
    };
    match catch(|| cfg.run().map(|r| (r.machine, r.emulated_cycles))) {
        Ok(Ok((m, n))) => {
            if n != reference.1 || m != reference.0 {
                return Verdict::Fail(
                    "run:reused-config-runs-stale-settings".into(),
                    format!("after changing program/budget/schedules of a configuration that had already run, run() reports {} cycles and a final machine that {} the stepped reference of the new settings ({} cycles)", n, if m == reference.0 { "equals" } else { "differs from" }, reference.1),
                );
            }
            Verdict::Pass
        }
        Ok(Err(e)) => Verdict::Fail("run:accepted-program-refused".into(), format!("run() of the changed configuration failed: {}", e)),
        Err(p) => Verdict::Fail(format!("run:{}", panic_signature(&p)), p),
    }
}

fn spell(v: u8, radix: u8) -> String {
    match radix {
        0 => v.to_string(),
        1 => format!("0x{:x}", v),
        _ => format!("0b{:b}", v),
    }
}

fn strip_ansi(s: &str) -> String {
    let mut out = String::new();
    let mut it = s.chars().peekable();
    while let Some(c) = it.next() {
        if c == '\u{1b}' {
            while let Some(n) = it.next() {
                if n.is_ascii_alphabetic() {
                    break;
                }
            }
        } else {
            out.push(c);
        }
    }
    out
}

/// spawn the real binary; `missing` = point it at a file that does not exist
pub fn check_process(c: &Case, dir: &std::path::Path, missing: bool) -> Verdict {
    let reference = match catch(|| reference(c)) {
        Ok(x) => x,
        Err(_) => return Verdict::Pass,
    };
    let _ = std::fs::create_dir_all(dir);
    let mut path = dir.join("p.asm");
    if missing {
        // "reading the program fails": three ways, chosen by the case (no file; a directory; a file that
        // exists and can be read but is not valid UTF-8 — a Latin-1 umlaut inside a comment)
        match c.expect_salt % 3 {
            0 => {
                let _ = std::fs::remove_file(&path);
            }
            1 => {
                path = dir.to_path_buf();
            }
            _ => {
                let mut bytes = c.program.as_bytes().to_vec();
                bytes.extend_from_slice(b"\n ; gr\xE4\xDFer\n");
                if std::fs::write(&path, &bytes).is_err() {
                    return Verdict::Pass;
                }
            }
        }
    } else if std::fs::write(&path, &c.program).is_err() {
        return Verdict::Pass;
    }
    let mut cmd = Command::new(BIN);
    cmd.env("NO_COLOR", "1").env("TMPDIR", dir).env_remove("CLICOLOR_FORCE").arg("run");
    let names = ["--di1", "--fc", "--fd", "--fe", "--ff"];
    for (n, v) in names.iter().zip(c.bytes.iter()) {
        cmd.arg(n).arg(spell(*v, c.radix));
    }
    for (n, v) in ["--temp", "--ai1", "--ai2"].iter().zip(c.volts.iter()) {
        // negative numbers need the = form
        cmd.arg(format!("{}={}", n, v));
    }
    for (n, f) in ["--j1", "--j2", "--uio1", "--uio2", "--uio3"].iter().zip(c.flags.iter()) {
        if *f {
            cmd.arg(n);
        }
    }
    for i in &c.interrupts {
        cmd.arg("--interrupt").arg(i.to_string());
    }
    for r in &c.resets {
        cmd.arg("--reset").arg(r.to_string());
    }
    cmd.arg(&path).arg(c.cycles.to_string());
    let mut expect_ok = !missing && reference.is_some();
    if let Some((m, _)) = &reference {
        let e = expectations(c, m);
        if c.expect.iter().any(|k| *k != 0) || c.expect_salt % 4 == 0 {
            cmd.arg("verify");
            if let Some(s) = e.state {
                cmd.arg("--state").arg(state_name(s));
            }
            if let Some(v) = e.fe {
                cmd.arg("--fe").arg(spell(v, c.radix));
            }
            if let Some(v) = e.ff {
                cmd.arg("--ff").arg(spell(v, (c.radix + 1) % 3));
            }
            expect_ok = expect_ok && e.holds;
        }
    }
    let out = match cmd.output() {
        Ok(o) => o,
        Err(e) => return Verdict::Fail("HARNESS:spawn".into(), format!("cannot spawn {}: {}", BIN, e)),
    };
    let code = out.status.code();
    let stdout = strip_ansi(&String::from_utf8_lossy(&out.stdout));
    let stderr = String::from_utf8_lossy(&out.stderr);
    if code == Some(101) || code.is_none() {
        return Verdict::Fail("cli:panic".into(), format!("the process died (status {:?}): {}", code, stderr.chars().take(300).collect::<String>()));
    }
    let ok = code == Some(0);
    if ok != expect_ok {
        return Verdict::Fail(
            if ok { "cli:exit-zero-on-failure".into() } else { "cli:exit-nonzero-on-success".into() },
            format!("exit status {:?}, expected {} (missing file: {}, program accepted: {}, args {:?}); stderr: {}", code, if expect_ok { "0" } else { "non-zero" }, missing, reference.is_some(), cmd.get_args().collect::<Vec<_>>(), stderr.chars().take(200).collect::<String>()),
        );
    }
    if let (Some((m, n)), false) = (&reference, missing) {
        let find = |prefix: &str| stdout.lines().find(|l| l.trim_start().starts_with(prefix)).map(|l| l.trim_start()[prefix.len()..].trim().to_string());
        let exp_cycles = format!("{}/{}", n, c.cycles);
        let exp_state = match m.state() {
            State::Running => "Running",
            State::Stopped => "Stopped",
            State::ErrorStopped => "Error",
        };
        let got_fe = find("Output:").map(|s| s.trim_start_matches("FE:").trim().to_string());
        let checks = [("Cycles:", find("Cycles:"), exp_cycles), ("State:", find("State:"), exp_state.to_string()), ("FE:", got_fe, m.bus().output_fe().to_string()), ("FF:", find("FF:"), m.bus().output_ff().to_string())];
        for (name, got, exp) in checks {
            if got.as_deref() != Some(exp.as_str()) {
                return Verdict::Fail(format!("cli:printed-{}", name.trim_end_matches(':').to_lowercase()), format!("printed {} {:?}, the stepped machine gives {:?}; stdout: {:?}", name, got, exp, stdout.chars().take(300).collect::<String>()));
            }
        }
    }
    Verdict::Pass
}

pub fn run(ctx: &Ctx) -> Evidence {
    let mut ev = Evidence::new(
        "exploration",
        "proptest-generated runs: programs (template-built .DB images with optional interrupt prelude, the repository's test programs, unparsable texts), budgets 0..5000, interrupt/reset multisets (cycle 0, duplicates, beyond the end, both lists on one cycle), every CLI-settable configuration value, numbers spelled in dec/0x/0b, expectation subsets with matching/mismatching values; in-process RunnerConfig::run/verify vs a stepping loop written from the statement, and the spawned real binary's stdout/exit status vs the same reference; non-trivial = run that halts before the budget, has a scheduled event inside the executed range, or carries a mismatching expectation; distinct by hash of the case",
    );
    ev.assumptions.push("the reference deliberately uses Machine::new + load + the 13 setters (not new_with_program)".into());
    ev.assumptions.push("programs with a C06 crash shape are not generated; the Time: line is ignored".into());
    if let Some(path) = &ctx.replay {
        let doc: serde_json::Value = serde_json::from_str(&std::fs::read_to_string(path).expect("replay")).expect("json");
        let c: Case = serde_json::from_value(doc["case"].clone()).expect("case");
        ev.evaluations = 1;
        let v = if doc["kind"] == "process" || doc["kind"] == "process-missing" { check_process(&c, std::path::Path::new("/verif/target/tmp-c12/replay"), doc["kind"] == "process-missing") } else { check_inprocess(&c).0 };
        if let Verdict::Fail(s, d) = v {
            ev.violation(doc["kind"].as_str().unwrap_or("inprocess"), &s, d, doc["case"].clone());
        }
        return ev;
    }
    let known: Vec<String> = load_known("C12").into_iter().map(|k| k.signature).collect();
    let n: u64 = ctx.tier.pick(250_000, 5_000_000);
    let collected = std::sync::Mutex::new(Evidence::new("", ""));
    let res = par_search(ctx.threads, 32, ctx.seed, n, || case_strategy(5000), &known, |c, first, _| {
        let (v, info) = check_inprocess(c);
        if first {
            let mut e = collected.lock().unwrap();
            e.evaluations += 1;
            *e.classes.entry(if info.accepted { "inprocess:accepted-program" } else { "inprocess:rejected-program" }.into()).or_insert(0) += 1;
            if info.halted_early {
                *e.classes.entry("inprocess:halted-before-budget".into()).or_insert(0) += 1;
            }
            if info.event_inside {
                *e.classes.entry("inprocess:event-inside-range".into()).or_insert(0) += 1;
            }
            if info.mismatching_expectation {
                *e.classes.entry("inprocess:mismatching-expectation".into()).or_insert(0) += 1;
            }
            if info.accepted && (info.halted_early || info.event_inside || info.mismatching_expectation) {
                e.nontrivial(&serde_json::to_string(c).unwrap());
            }
            if e.samples.len() < 3 && info.event_inside && c.program.len() < 300 {
                let s = json!({"part": "inprocess", "program": c.program, "cycles": c.cycles, "interrupts": c.interrupts, "resets": c.resets, "expect": c.expect});
                e.samples.push(s);
            }
        }
        v
    });
    for r in res {
        if let Some((c, s, d)) = r.failure {
            ev.violation("inprocess", &s, d, serde_json::to_value(&c).unwrap());
        }
    }
    ev.merge(collected.into_inner().unwrap());

    // ---- process level
    if !std::path::Path::new(BIN).exists() {
        println!("INCONCLUSIVE property=C12 the repository binary {} has not been built", BIN);
        let code = finish(ctx, ev);
        std::process::exit(if code == 1 { 1 } else { 2 });
    }
    let n_proc: usize = ctx.tier.pick(3_200, 64_000);
    let per = n_proc / 32;
    let res = par_chunks(ctx.threads, 32, |k| {
        use proptest::strategy::ValueTree;
        let mut runner = runner(mix(ctx.seed ^ 0xC12 ^ ((k as u64) << 40)), per as u32);
        let strat = case_strategy(1500);
        let dir = std::path::PathBuf::from(format!("/verif/target/tmp-c12/w{}", k));
        let mut out = vec![];
        let mut stats = (0u64, 0u64, 0u64);
        for i in 0..per {
            let mut c = strat.new_tree(&mut runner).unwrap().current();
            let missing = i % 23 == 7;
            if i % 11 == 3 {
                c.program = "#! mrasm\n this is not a program\n".into();
            }
            stats.0 += 1;
            let v = check_process(&c, &dir, missing);
            if missing {
                stats.1 += 1;
            }
            if c.expect.iter().any(|k| *k == 2) {
                stats.2 += 1;
            }
            if let Verdict::Fail(s, d) = v {
                if !out.iter().any(|(_, s2, _, _): &(Case, String, String, bool)| *s2 == s) {
                    out.push((c, s, d, missing));
                }
            }
        }
        let _ = std::fs::remove_dir_all(&dir);
        (stats, out)
    });
    let mut harness = 0;
    for ((n, miss, mism), out) in res {
        ev.evaluations += n;
        ev.class("process:spawned", n);
        ev.class("process:missing-file", miss);
        ev.class("process:mismatching-expectation", mism);
        for (c, s, d, missing) in out {
            if s.starts_with("HARNESS:") {
                harness += 1;
                println!("HARNESS-ERROR {}", d);
                continue;
            }
            ev.violation(if missing { "process-missing" } else { "process" }, &s, d, serde_json::to_value(&c).unwrap());
        }
    }
    ev.sample(json!({"part": "process", "argv_shape": "2a-emulator run --di1 B --fc B --fd B --fe B --ff B --temp=V --ai1=V --ai2=V [--j1 ...] [--interrupt N]... [--reset N]... FILE CYCLES [verify [--state S] [--fe B] [--ff B]]"}));
    if harness > 0 {
        let code = finish(ctx, ev);
        std::process::exit(if code == 1 { 1 } else { 2 });
    }
    ev
}
