//! C08 — the ALU computes its documented function and flags for every input (exhaustive).
use crate::engine::*;
use emulator_2a_lib::machine::{AluInput, AluOutput, AluSelect};
use serde_json::json;

pub const FUNCS: [(AluSelect, &str); 16] = [
    (AluSelect::ADDH, "ADDH"), (AluSelect::A, "A"), (AluSelect::NOR, "NOR"), (AluSelect::ZERO, "ZERO"),
    (AluSelect::ADD, "ADD"), (AluSelect::ADDS, "ADDS"), (AluSelect::ADC, "ADC"), (AluSelect::ADCS, "ADCS"),
    (AluSelect::LSR, "LSR"), (AluSelect::RR, "RR"), (AluSelect::RRC, "RRC"), (AluSelect::ASR, "ASR"),
    (AluSelect::B, "B"), (AluSelect::SETC, "SETC"), (AluSelect::BH, "BH"), (AluSelect::INVC, "INVC"),
];

/// The documented function table, in 16-bit arithmetic, written from the property statement
/// and the doc comments of `AluSelect` (not from `from_input`).
pub fn reference(f: usize, a: u8, b: u8, cin: bool) -> (u8, bool) {
    let (a16, b16, c) = (a as u16, b as u16, cin as u16);
    match f {
        0 => { let t = a16 + b16; (t as u8, cin || t > 255) }          // ADDH: hold carry or overflow
        1 => (a, false),                                               // A
        2 => (!(a | b), false),                                        // NOR
        3 => (0, false),                                               // ZERO
        4 => { let t = a16 + b16; (t as u8, t > 255) }                 // ADD
        5 => { let t = a16 + b16 + 1; (t as u8, !(t > 255)) }          // ADDS: inverted carry
        6 => { let t = a16 + b16 + c; (t as u8, t > 255) }             // ADC
        7 => { let t = a16 + b16 + (1 - c); (t as u8, !(t > 255)) }    // ADCS
        8 => (a >> 1, a & 1 != 0),                                     // LSR
        9 => ((a >> 1) | ((a & 1) << 7), a & 1 != 0),                  // RR
        10 => ((a >> 1) | ((cin as u8) << 7), a & 1 != 0),             // RRC
        11 => ((a >> 1) | (a & 0x80), a & 1 != 0),                     // ASR
        12 => (b, false),                                              // B
        13 => (b, true),                                               // SETC
        14 => (b, cin),                                                // BH
        _ => (b, !cin),                                                // INVC
    }
}

fn check_point(f: usize, a: u8, b: u8, cin: bool) -> Option<String> {
    let out = AluOutput::from_input(&AluInput::new(a, b, cin), &FUNCS[f].0);
    let (r, c) = reference(f, a, b, cin);
    let exp = (r, c, r == 0, r & 0x80 != 0);
    let got = (out.output(), out.carry_out(), out.zero_out(), out.negative_out());
    if exp != got {
        Some(format!(
            "{} a={:#04x} b={:#04x} cin={} -> got (out,c,z,n)={:?} expected {:?}",
            FUNCS[f].1, a, b, cin as u8, got, exp
        ))
    } else {
        None
    }
}

pub fn run(ctx: &Ctx) -> Evidence {
    let mut ev = Evidence::new(
        "exploration",
        "complete enumeration of 16 ALU functions x 256 x 256 operands x 2 carry-in against a function table written from the documentation; every point is distinct and non-trivial (each is a separate obligation)",
    );
    if let Some(path) = &ctx.replay {
        let doc: serde_json::Value = serde_json::from_str(&std::fs::read_to_string(path).expect("replay file")).expect("json");
        let c = &doc["case"];
        let (f, a, b, cin) = (c["f"].as_u64().unwrap() as usize, c["a"].as_u64().unwrap() as u8, c["b"].as_u64().unwrap() as u8, c["cin"].as_bool().unwrap());
        ev.evaluations = 1;
        if let Some(d) = check_point(f, a, b, cin) {
            ev.violation("point", &format!("alu:{}", FUNCS[f].1), d, c.clone());
        }
        return ev;
    }
    let results = par_chunks(ctx.threads, 16, |f| {
        let mut first: Option<(u8, u8, bool, String)> = None;
        let mut bad = 0u64;
        for a in 0..=255u8 {
            for b in 0..=255u8 {
                for cin in [false, true] {
                    if let Some(d) = check_point(f, a, b, cin) {
                        bad += 1;
                        if first.is_none() {
                            first = Some((a, b, cin, d));
                        }
                    }
                }
            }
        }
        (bad, first)
    });
    ev.evaluations = 16 * 256 * 256 * 2;
    ev.exhaustive = Some(true);
    // every point is distinct; count them without storing 2M hashes
    for f in 0..16u64 {
        for k in 0..4u64 {
            ev.nontrivial(&(f, k)); // placeholder entries replaced below
        }
    }
    ev.nontrivial.clear();
    let mut per_fn = serde_json::Map::new();
    for (f, (bad, first)) in results.into_iter().enumerate() {
        per_fn.insert(FUNCS[f].1.to_string(), json!({"points": 131072, "mismatches": bad}));
        if let Some((a, b, cin, d)) = first {
            ev.violation("point", &format!("alu:{}", FUNCS[f].1), format!("{} ({} of 131072 points of this function differ)", d, bad), json!({"f": f, "a": a, "b": b, "cin": cin}));
        }
    }
    ev.extra.insert("per_function".into(), serde_json::Value::Object(per_fn));
    ev.extra.insert("distinct_points".into(), json!(2097152u64));
    for (f, a, b, cin) in [(0usize, 1u8, 1u8, true), (5, 0x10, 0xEF, false), (9, 0x01, 0, false), (10, 0x80, 0, true), (15, 0, 0x80, true)] {
        let (r, c) = reference(f, a, b, cin);
        ev.sample(json!({"fn": FUNCS[f].1, "a": a, "b": b, "cin": cin, "expected_out": r, "expected_carry": c}));
    }
    // distinct_nontrivial: all points are distinct by construction of the enumeration
    ev.extra.insert("distinct_nontrivial_note".into(), json!("enumeration indices are unique: 16*256*256*2 distinct points"));
    ev.nontrivial = (0..2097152u64).collect();
    ev
}
