//! Syntactic program generator: AST-first mrasm programs (proptest strategies) rendered to
//! text with every spelling freedom of the language; token-level mutation; token soups.
#![allow(dead_code)]

use crate::engine::Expand;
use crate::refasm;
use emulator_2a_lib::parser::*;
use proptest::prelude::*;

/// Deterministic chooser driven by a *generated* seed; seed 0 = always the first (canonical) choice,
/// so a shrunk case renders canonically.
pub struct Choice(Option<Expand>);
impl Choice {
    pub fn new(seed: u64) -> Self {
        Choice(if seed == 0 { None } else { Some(Expand(seed)) })
    }
    pub fn below(&mut self, n: usize) -> usize {
        match &mut self.0 {
            None => 0,
            Some(e) => e.below(n as u64) as usize,
        }
    }
    pub fn chance(&mut self, pct: usize) -> bool {
        match &mut self.0 {
            None => false,
            Some(e) => e.below(100) < pct as u64,
        }
    }
    pub fn pick<'a, T>(&mut self, v: &'a [T]) -> &'a T {
        &v[self.below(v.len())]
    }
}

#[derive(Clone, Copy, Debug)]
pub struct GenOpts {
    /// DEC with every operand shape (otherwise registers only)
    pub dec_any: bool,
    /// references may be spelled in another letter case than the definition
    pub mixed_case_refs: bool,
    /// .ORG may point backwards
    pub org_backward: bool,
    /// image limit in bytes (240 = fits RAM)
    pub max_image: usize,
    pub max_lines: usize,
    /// up to this many names (labels + .EQU)
    pub max_names: usize,
}

pub const FITS: GenOpts = GenOpts { dec_any: true, mixed_case_refs: true, org_backward: false, max_image: 240, max_lines: 16, max_names: 5 };

// ---------------------------------------------------------------------------------------------
// strategies for AST pieces (names are placeholders "\u{1}<k>" resolved by `build`)

pub fn byte_value() -> impl Strategy<Value = u8> {
    prop_oneof![3 => any::<u8>(), 2 => prop::sample::select(vec![0u8, 1, 2, 9, 10, 99, 100, 127, 128, 199, 200, 249, 250, 254, 255])]
}

pub fn name_strategy() -> impl Strategy<Value = String> {
    prop_oneof![
        8 => "[A-OQT-Za-oqt-z_][A-Za-z0-9_]{0,7}",
        2 => "[PSps][A-BD-OQ-Za-bd-oq-z0-9_][A-Za-z0-9_]{0,5}",
        1 => "[A-OQT-Za-oqt-z_][A-Za-z0-9_]{30,58}",
        1 => "[A-OQT-Za-oqt-z_]",
    ]
    .prop_filter("reserved prefix", |s| {
        let l = s.to_ascii_lowercase();
        !(l.starts_with('r') || l.starts_with("pc") || l.starts_with("sp"))
    })
}

pub fn comment_strategy() -> impl Strategy<Value = Option<String>> {
    let alpha: Vec<char> = "abc XYZ 019 ;:,()+#!*._-=\t\"'é漢😀\u{2028}\u{a0}\\/<>[]{}$%&@^~`|?".chars().collect();
    prop_oneof![
        5 => Just(None),
        4 => prop::collection::vec(prop::sample::select(alpha), 0..14).prop_map(|v| {
            let s: String = v.into_iter().collect();
            Some(s.trim_matches(|c| c == ' ' || c == '\t' || c == ';').to_string())
        }),
        1 => "[ -~]{0,40}".prop_map(|s| Some(s.trim_matches(|c| c == ' ' || c == '\t' || c == ';').to_string())),
    ]
}

fn reg() -> impl Strategy<Value = Register> {
    prop::sample::select(vec![Register::R0, Register::R1, Register::R2, Register::R3])
}
fn label_ref() -> impl Strategy<Value = String> {
    (0u8..8).prop_map(|k| format!("\u{1}{}", k))
}
fn konst() -> impl Strategy<Value = Constant> {
    prop_oneof![3 => byte_value().prop_map(Constant::Constant), 2 => label_ref().prop_map(Constant::Label)]
}
fn mem() -> impl Strategy<Value = MemAddress> {
    prop_oneof![2 => reg().prop_map(MemAddress::Register), 3 => konst().prop_map(MemAddress::Constant)]
}
fn src() -> impl Strategy<Value = Source> {
    prop_oneof![
        reg().prop_map(Source::Register),
        reg().prop_map(|r| Source::RegisterDi(RegisterDi(r))),
        reg().prop_map(|r| Source::RegisterDdi(RegisterDdi(r))),
        mem().prop_map(Source::MemAddress),
        konst().prop_map(Source::Constant),
    ]
}
fn dst() -> impl Strategy<Value = Destination> {
    prop_oneof![
        reg().prop_map(Destination::Register),
        reg().prop_map(|r| Destination::RegisterDi(RegisterDi(r))),
        reg().prop_map(|r| Destination::RegisterDdi(RegisterDdi(r))),
        mem().prop_map(Destination::MemAddress),
    ]
}

pub fn word_value() -> impl Strategy<Value = u16> {
    prop_oneof![3 => any::<u16>(), 2 => prop::sample::select(vec![0u16, 1, 255, 256, 257, 4096, 32767, 32768, 65534, 65535])]
}

/// every machine instruction form (no directives)
pub fn machine_instr() -> BoxedStrategy<Instruction> {
    use Instruction::*;
    let rr = |f: fn(Register, Register) -> Instruction| (reg(), reg()).prop_map(move |(a, b)| f(a, b)).boxed();
    let r1 = |f: fn(Register) -> Instruction| reg().prop_map(f).boxed();
    let ds = |f: fn(Destination, Source) -> Instruction| (dst(), src()).prop_map(move |(a, b)| f(a, b)).boxed();
    let lb = |f: fn(String) -> Instruction| label_ref().prop_map(f).boxed();
    let arms: Vec<BoxedStrategy<Instruction>> = vec![
        r1(Clr), rr(Add), rr(Adc), rr(Sub), rr(Mul), rr(Div), r1(Inc), src().prop_map(Dec).boxed(), r1(Neg), rr(And), rr(Or), rr(Xor), r1(Com),
        ds(Bits), ds(Bitc), r1(Tst), ds(Cmp), ds(Bitt), r1(Lsr), r1(Asr), r1(Lsl), r1(Rrc), r1(Rlc), ds(Mov),
        (reg(), konst()).prop_map(|(r, k)| LdConstant(r, k)).boxed(),
        (reg(), mem()).prop_map(|(r, m)| LdMemAddress(r, m)).boxed(),
        (mem(), reg()).prop_map(|(m, r)| St(m, r)).boxed(),
        r1(Push), r1(Pop), Just(PushF).boxed(), Just(PopF).boxed(),
        src().prop_map(Ldsp).boxed(), src().prop_map(Ldfr).boxed(),
        lb(Jmp), lb(Jcs), lb(Jcc), lb(Jzs), lb(Jzc), lb(Jns), lb(Jnc), lb(Jr), lb(Call),
        Just(Ret).boxed(), Just(RetI).boxed(), Just(Stop).boxed(), Just(Nop).boxed(), Just(Ei).boxed(), Just(Di).boxed(),
    ];
    proptest::strategy::Union::new(arms).boxed()
}

pub fn directive() -> BoxedStrategy<Instruction> {
    use Instruction::*;
    prop_oneof![
        3 => prop::collection::vec(byte_value(), 1..7).prop_map(AsmDefineBytes),
        3 => prop::collection::vec(word_value(), 1..5).prop_map(AsmDefineWords),
        3 => prop_oneof![4 => 0u8..6, 1 => byte_value()].prop_map(AsmByte),
        1 => prop::sample::select(vec![Stacksize::_0, Stacksize::_16, Stacksize::_32, Stacksize::_48, Stacksize::_64, Stacksize::NotSet]).prop_map(AsmStacksize),
        1 => prop_oneof![Just(Programsize::Auto), Just(Programsize::NotSet), byte_value().prop_map(Programsize::Size)].prop_map(AsmProgramsize),
    ]
    .boxed()
}

#[derive(Clone, Debug)]
pub enum LineSpec {
    Empty(Option<String>),
    /// define the next undefined name: as label, or as .EQU with the value
    Define(Option<u8>, Option<String>),
    /// .ORG: distance forward from the current address; with `org_backward` the flag selects a target <= current
    Org(u8, bool, Option<String>),
    Instr(Instruction, Option<String>),
    /// define the next undefined name twice in a row (the grammar does not forbid it): mode 0 label+label,
    /// 1 .EQU(current address)+label, 2 label+.EQU(current address), 3 .EQU+.EQU with one value,
    /// 4 label+.EQU with another value (the only mode in which references become ambiguous)
    DefineTwice(u8, Option<String>, Option<String>),
    /// the previous instruction line once more, directly behind it, with another comment
    RepeatPrev(Option<String>),
}

#[derive(Clone, Debug)]
pub struct Spec {
    pub names: Vec<String>,
    pub lines: Vec<LineSpec>,
    pub header: Option<String>,
    pub flip_seed: u64,
    pub render_seed: u64,
}

pub fn line_spec() -> impl Strategy<Value = LineSpec> {
    prop_oneof![
        1 => comment_strategy().prop_map(LineSpec::Empty),
        2 => (prop_oneof![2 => Just(None), 1 => byte_value().prop_map(Some)], comment_strategy()).prop_map(|(e, c)| LineSpec::Define(e, c)),
        1 => (prop_oneof![3 => 0u8..10, 1 => any::<u8>()], any::<bool>(), comment_strategy()).prop_map(|(d, b, c)| LineSpec::Org(d, b, c)),
        8 => (machine_instr(), comment_strategy()).prop_map(|(i, c)| LineSpec::Instr(i, c)),
        3 => (directive(), comment_strategy()).prop_map(|(i, c)| LineSpec::Instr(i, c)),
        1 => (0u8..5, comment_strategy(), comment_strategy()).prop_map(|(m, a, b)| LineSpec::DefineTwice(m, a, b)),
        1 => comment_strategy().prop_map(LineSpec::RepeatPrev),
    ]
}

pub fn spec_strategy(o: GenOpts) -> impl Strategy<Value = Spec> {
    (
        prop::collection::vec(name_strategy(), 0..=o.max_names),
        prop::collection::vec(line_spec(), 1..o.max_lines),
        comment_strategy(),
        prop_oneof![1 => Just(0u64), 2 => any::<u64>()],
        prop_oneof![1 => Just(0u64), 4 => any::<u64>()],
    )
        .prop_map(move |(mut names, lines, header, flip_seed, render_seed)| {
            // prefix-related names (LOOP / LOOP2 / lo): a lookup that matches prefixes or compares only
            // part of a name must not go unnoticed
            let mut c = Choice::new(flip_seed ^ 0x5EED);
            let n0 = names.len();
            for i in 0..n0 {
                if names.len() < o.max_names && c.chance(30) {
                    let derived = match c.below(3) {
                        0 => format!("{}{}", names[i], c.pick(&["2", "_", "x", "0", "A"][..])),
                        1 => format!("{}{}", names[i], names[i]),
                        _ => names[i].chars().take(1 + c.below(names[i].len().max(1))).collect(),
                    };
                    let l = derived.to_ascii_lowercase();
                    if !(l.starts_with('r') || l.starts_with("pc") || l.starts_with("sp")) && !derived.is_empty() {
                        let pos = c.below(names.len() + 1);
                        names.insert(pos, derived);
                    }
                }
            }
            // distinct case-insensitively
            let mut seen: Vec<String> = vec![];
            names.retain(|n| {
                let l = n.to_ascii_lowercase();
                if seen.contains(&l) {
                    false
                } else {
                    seen.push(l);
                    true
                }
            });
            Spec { names, lines, header, flip_seed, render_seed }
        })
}

fn flip_case(c: &mut Choice, s: &str) -> String {
    if !c.chance(40) {
        return s.to_string();
    }
    s.chars()
        .map(|ch| {
            if c.chance(50) {
                if ch.is_ascii_lowercase() {
                    ch.to_ascii_uppercase()
                } else {
                    ch.to_ascii_lowercase()
                }
            } else {
                ch
            }
        })
        .collect()
}

/// replace the label placeholders of an instruction; None if it needs a name and there is none
fn resolve(i: &Instruction, names: &[String], c: &mut Choice, mixed: bool) -> Option<Instruction> {
    let mut ok = true;
    let mut f = |n: &String| -> String {
        if let Some(k) = n.strip_prefix('\u{1}') {
            if names.is_empty() {
                ok = false;
                return String::new();
            }
            let k: usize = k.parse().unwrap_or(0);
            let name = &names[k % names.len()];
            if mixed {
                flip_case(c, name)
            } else {
                name.clone()
            }
        } else {
            n.clone()
        }
    };
    let r = map_instr(i, &mut f);
    if ok {
        Some(r)
    } else {
        None
    }
}

/// apply `f` to every name referenced by the instruction
pub fn map_instr(i: &Instruction, fm: &mut dyn FnMut(&String) -> String) -> Instruction {
    use Instruction::*;
    match i {
        Jmp(n) => Jmp(fm(n)),
        Jcs(n) => Jcs(fm(n)),
        Jcc(n) => Jcc(fm(n)),
        Jzs(n) => Jzs(fm(n)),
        Jzc(n) => Jzc(fm(n)),
        Jns(n) => Jns(fm(n)),
        Jnc(n) => Jnc(fm(n)),
        Jr(n) => Jr(fm(n)),
        Call(n) => Call(fm(n)),
        LdConstant(r, c) => LdConstant(*r, map_k(c, fm)),
        LdMemAddress(r, a) => LdMemAddress(*r, map_mem(a, fm)),
        St(a, r) => St(map_mem(a, fm), *r),
        Dec(x) => Dec(map_src(x, fm)),
        Ldsp(x) => Ldsp(map_src(x, fm)),
        Ldfr(x) => Ldfr(map_src(x, fm)),
        Bits(a, b) => Bits(map_dst(a, fm), map_src(b, fm)),
        Bitc(a, b) => Bitc(map_dst(a, fm), map_src(b, fm)),
        Cmp(a, b) => Cmp(map_dst(a, fm), map_src(b, fm)),
        Bitt(a, b) => Bitt(map_dst(a, fm), map_src(b, fm)),
        Mov(a, b) => Mov(map_dst(a, fm), map_src(b, fm)),
        o => o.clone(),
    }
}

fn map_k(k: &Constant, f: &mut dyn FnMut(&String) -> String) -> Constant {
    match k {
        Constant::Label(n) => Constant::Label(f(n)),
        k => k.clone(),
    }
}
fn map_mem(m: &MemAddress, f: &mut dyn FnMut(&String) -> String) -> MemAddress {
    match m {
        MemAddress::Constant(c) => MemAddress::Constant(map_k(c, f)),
        m => m.clone(),
    }
}
fn map_src(s: &Source, f: &mut dyn FnMut(&String) -> String) -> Source {
    match s {
        Source::Constant(c) => Source::Constant(map_k(c, f)),
        Source::MemAddress(a) => Source::MemAddress(map_mem(a, f)),
        s => s.clone(),
    }
}
fn map_dst(d: &Destination, f: &mut dyn FnMut(&String) -> String) -> Destination {
    match d {
        Destination::MemAddress(a) => Destination::MemAddress(map_mem(a, f)),
        d => d.clone(),
    }
}

/// names referenced by an instruction (original spelling)
pub fn names_of(i: &Instruction) -> Vec<String> {
    let mut out = vec![];
    let mut f = |n: &String| -> String {
        out.push(n.clone());
        n.clone()
    };
    let _ = map_instr(i, &mut f);
    out
}

#[derive(Clone, Debug, Default)]
pub struct Shape {
    pub mixed_case_ref: bool,
    pub dec_non_register: bool,
    pub orgs: u32,
    pub backward_org: bool,
    pub image: usize,
    pub label_ref_after_data: bool,
    pub two_operand_non_register: bool,
    pub comments: u32,
    pub mem_or_const_operands: u32,
    pub byte_total: usize,
    pub duplicate_definitions: u32,
    pub ambiguous_names: u32,
}

/// Build the AST from a spec.  Every name is defined exactly once (remaining ones as trailing
/// labels); sizes are exact, so `.ORG` is forward unless `org_backward` asks otherwise and the
/// image stays within `max_image`.
pub fn build(spec: &Spec, o: &GenOpts) -> (Asm, Shape) {
    let mut c = Choice::new(spec.flip_seed);
    let mut shape = Shape::default();
    let mut lines: Vec<Line> = vec![];
    let mut undefined: Vec<String> = spec.names.iter().rev().cloned().collect();
    let mut addr: usize = 0;
    let mut data_seen = false;
    for ls in &spec.lines {
        match ls {
            LineSpec::Empty(cm) => lines.push(Line::Empty(cm.clone())),
            LineSpec::Define(equ, cm) => match undefined.pop() {
                Some(n) => match equ {
                    Some(v) => lines.push(Line::Instruction(Instruction::AsmEquals(n, *v), cm.clone())),
                    None => lines.push(Line::Label(n, cm.clone())),
                },
                None => lines.push(Line::Empty(cm.clone())),
            },
            LineSpec::DefineTwice(mode, c1, c2) => match undefined.pop() {
                Some(n) => {
                    let n2 = flip_case(&mut c, &n);
                    let mode = if addr > 255 { 0 } else { *mode };
                    let here = (addr & 0xFF) as u8;
                    shape.duplicate_definitions += 1;
                    let (a, b) = match mode {
                        0 => (Line::Label(n, c1.clone()), Line::Label(n2, c2.clone())),
                        1 => (Line::Instruction(Instruction::AsmEquals(n, here), c1.clone()), Line::Label(n2, c2.clone())),
                        2 => (Line::Label(n, c1.clone()), Line::Instruction(Instruction::AsmEquals(n2, here), c2.clone())),
                        3 => (Line::Instruction(Instruction::AsmEquals(n, here), c1.clone()), Line::Instruction(Instruction::AsmEquals(n2, here), c2.clone())),
                        _ => {
                            shape.ambiguous_names += 1;
                            (Line::Label(n, c1.clone()), Line::Instruction(Instruction::AsmEquals(n2, here ^ 0x55), c2.clone()))
                        }
                    };
                    lines.push(a);
                    lines.push(b);
                }
                None => lines.push(Line::Empty(c1.clone())),
            },
            LineSpec::RepeatPrev(cm) => {
                let prev = match lines.last() {
                    Some(Line::Instruction(i, _)) if !matches!(i, Instruction::AsmOrigin(_) | Instruction::AsmEquals(..)) => Some(i.clone()),
                    _ => None,
                };
                match prev {
                    Some(i) if addr + refasm::length(&i) <= o.max_image => {
                        addr += refasm::length(&i);
                        lines.push(Line::Instruction(i, cm.clone()));
                    }
                    _ => lines.push(Line::Empty(cm.clone())),
                }
            }
            LineSpec::Org(d, back, cm) => {
                let target = if o.org_backward && *back { (*d as usize) % (addr + 1) } else { addr + *d as usize };
                if target <= 255 && target <= o.max_image.min(255) {
                    if target < addr {
                        shape.backward_org = true;
                    } else {
                        addr = target;
                    }
                    shape.orgs += 1;
                    data_seen = true;
                    lines.push(Line::Instruction(Instruction::AsmOrigin(target as u8), cm.clone()));
                } else {
                    lines.push(Line::Empty(cm.clone()));
                }
            }
            LineSpec::Instr(i, cm) => {
                let mut i = i.clone();
                if !o.dec_any {
                    if let Instruction::Dec(s) = &i {
                        if !matches!(s, Source::Register(_)) {
                            i = Instruction::Dec(Source::Register(Register::R1));
                        }
                    }
                }
                let i = match resolve(&i, &spec.names, &mut c, o.mixed_case_refs) {
                    Some(i) => i,
                    None => Instruction::Nop,
                };
                let len = refasm::length(&i);
                if addr + len > o.max_image {
                    lines.push(Line::Empty(cm.clone()));
                    continue;
                }
                addr += len;
                let refs = names_of(&i);
                if !refs.is_empty() && data_seen {
                    shape.label_ref_after_data = true;
                }
                for r in &refs {
                    if !spec.names.iter().any(|n| n == r) {
                        shape.mixed_case_ref = true;
                    }
                }
                match &i {
                    Instruction::Dec(s) if !matches!(s, Source::Register(_)) => shape.dec_non_register = true,
                    Instruction::AsmByte(_) | Instruction::AsmDefineBytes(_) | Instruction::AsmDefineWords(_) => data_seen = true,
                    Instruction::Bits(d, s) | Instruction::Bitc(d, s) | Instruction::Cmp(d, s) | Instruction::Bitt(d, s) | Instruction::Mov(d, s) => {
                        if !matches!(d, Destination::Register(_)) || !matches!(s, Source::Register(_)) {
                            shape.two_operand_non_register = true;
                            shape.mem_or_const_operands += 1;
                        }
                    }
                    Instruction::LdConstant(..) | Instruction::LdMemAddress(..) | Instruction::St(..) => {
                        shape.two_operand_non_register = true;
                        shape.mem_or_const_operands += 1;
                    }
                    _ => {}
                }
                lines.push(Line::Instruction(i, cm.clone()));
            }
        }
    }
    while let Some(n) = undefined.pop() {
        lines.push(Line::Label(n, None));
    }
    shape.image = addr;
    shape.comments = lines
        .iter()
        .filter(|l| match l {
            Line::Empty(c) | Line::Label(_, c) | Line::Instruction(_, c) => c.is_some(),
        })
        .count() as u32;
    (Asm { comment_after_shebang: spec.header.clone(), lines }, shape)
}

// ---------------------------------------------------------------------------------------------
// rendering

fn kw(c: &mut Choice, s: &str) -> String {
    match c.below(3) {
        0 => s.to_string(),
        1 => s.to_ascii_lowercase(),
        _ => s.chars().map(|ch| if c.chance(50) { ch.to_ascii_lowercase() } else { ch }).collect(),
    }
}
fn ws1(c: &mut Choice) -> String {
    (0..1 + c.below(3)).map(|_| if c.chance(20) { '\t' } else { ' ' }).collect()
}
fn ws0(c: &mut Choice) -> String {
    (0..c.below(3)).map(|_| if c.chance(20) { '\t' } else { ' ' }).collect()
}
pub fn num(c: &mut Choice, v: u32, prefix_ok: bool) -> String {
    let z = "0".repeat(if c.chance(25) { c.below(12) } else { 0 });
    match if prefix_ok { c.below(3) } else { 0 } {
        0 => format!("{}{}", z, v),
        1 => {
            let h = format!("{:x}", v);
            format!("0x{}{}", z, if c.chance(50) { h.to_uppercase() } else { h })
        }
        _ => format!("0b{}{:b}", z, v),
    }
}
fn rreg(c: &mut Choice, x: Register) -> String {
    match x {
        Register::R0 => kw(c, "R0"),
        Register::R1 => kw(c, "R1"),
        Register::R2 => kw(c, "R2"),
        Register::R3 => {
            if c.chance(40) {
                "PC".into()
            } else {
                kw(c, "R3")
            }
        }
    }
}
fn rk(c: &mut Choice, k: &Constant) -> String {
    match k {
        Constant::Constant(v) => num(c, *v as u32, true),
        Constant::Label(l) => l.clone(),
    }
}
fn rmem(c: &mut Choice, m: &MemAddress) -> String {
    match m {
        MemAddress::Constant(k) => format!("({})", rk(c, k)),
        MemAddress::Register(x) => format!("({})", rreg(c, *x)),
    }
}
fn rsrc(c: &mut Choice, s: &Source) -> String {
    match s {
        Source::Register(x) => rreg(c, *x),
        Source::RegisterDi(RegisterDi(x)) => format!("({}+)", rreg(c, *x)),
        Source::RegisterDdi(RegisterDdi(x)) => format!("(({}+))", rreg(c, *x)),
        Source::MemAddress(m) => rmem(c, m),
        Source::Constant(k) => rk(c, k),
    }
}
fn rdst(c: &mut Choice, s: &Destination) -> String {
    match s {
        Destination::Register(x) => rreg(c, *x),
        Destination::RegisterDi(RegisterDi(x)) => format!("({}+)", rreg(c, *x)),
        Destination::RegisterDdi(RegisterDdi(x)) => format!("(({}+))", rreg(c, *x)),
        Destination::MemAddress(m) => rmem(c, m),
    }
}

pub fn render_instr(c: &mut Choice, i: &Instruction) -> String {
    use Instruction::*;
    let sp = ws1(c);
    let cm = format!(",{}", ws0(c));
    let one = |c: &mut Choice, n: &str, x: Register, sp: &str| format!("{}{}{}", kw(c, n), sp, rreg(c, x));
    let two = |c: &mut Choice, n: &str, a: Register, b: Register, sp: &str, cm: &str| format!("{}{}{}{}{}", kw(c, n), sp, rreg(c, a), cm, rreg(c, b));
    let dsx = |c: &mut Choice, n: &str, d: &Destination, s: &Source, sp: &str, cm: &str| format!("{}{}{}{}{}", kw(c, n), sp, rdst(c, d), cm, rsrc(c, s));
    let lab = |c: &mut Choice, n: &str, l: &str, sp: &str| format!("{}{}{}", kw(c, n), sp, l);
    match i {
        AsmOrigin(a) => format!("{}{}{}", kw(c, ".ORG"), sp, num(c, *a as u32, true)),
        AsmByte(a) => format!("{}{}{}", kw(c, ".BYTE"), sp, num(c, *a as u32, true)),
        AsmDefineBytes(v) => format!("{}{}{}", kw(c, ".DB"), sp, v.iter().map(|b| num(c, *b as u32, true)).collect::<Vec<_>>().join(&cm)),
        AsmDefineWords(v) => format!("{}{}{}", kw(c, ".DW"), sp, v.iter().map(|b| num(c, *b as u32, true)).collect::<Vec<_>>().join(&cm)),
        AsmEquals(n, v) => format!("{}{}{}{}{}", kw(c, ".EQU"), sp, n, ws1(c), num(c, *v as u32, false)),
        AsmStacksize(s) => format!(
            "{}{}{}",
            kw(c, "*STACKSIZE"),
            sp,
            match s {
                Stacksize::_0 => "0".into(),
                Stacksize::_16 => "16".into(),
                Stacksize::_32 => "32".into(),
                Stacksize::_48 => "48".into(),
                Stacksize::_64 => "64".into(),
                Stacksize::NotSet => kw(c, "NOSET"),
            }
        ),
        AsmProgramsize(p) => format!(
            "{}{}{}",
            kw(c, "*PROGRAMSIZE"),
            sp,
            match p {
                Programsize::Auto => kw(c, "AUTO"),
                Programsize::NotSet => kw(c, "NOSET"),
                Programsize::Size(n) => num(c, *n as u32, false),
            }
        ),
        Clr(x) => one(c, "CLR", *x, &sp),
        Inc(x) => one(c, "INC", *x, &sp),
        Neg(x) => one(c, "NEG", *x, &sp),
        Com(x) => one(c, "COM", *x, &sp),
        Tst(x) => one(c, "TST", *x, &sp),
        Lsr(x) => one(c, "LSR", *x, &sp),
        Asr(x) => one(c, "ASR", *x, &sp),
        Lsl(x) => one(c, "LSL", *x, &sp),
        Rrc(x) => one(c, "RRC", *x, &sp),
        Rlc(x) => one(c, "RLC", *x, &sp),
        Push(x) => one(c, "PUSH", *x, &sp),
        Pop(x) => one(c, "POP", *x, &sp),
        Add(a, b) => two(c, "ADD", *a, *b, &sp, &cm),
        Adc(a, b) => two(c, "ADC", *a, *b, &sp, &cm),
        Sub(a, b) => two(c, "SUB", *a, *b, &sp, &cm),
        Mul(a, b) => two(c, "MUL", *a, *b, &sp, &cm),
        Div(a, b) => two(c, "DIV", *a, *b, &sp, &cm),
        And(a, b) => two(c, "AND", *a, *b, &sp, &cm),
        Or(a, b) => two(c, "OR", *a, *b, &sp, &cm),
        Xor(a, b) => two(c, "XOR", *a, *b, &sp, &cm),
        Dec(s) => format!("{}{}{}", kw(c, "DEC"), sp, rsrc(c, s)),
        Ldsp(s) => format!("{}{}{}", kw(c, "LDSP"), sp, rsrc(c, s)),
        Ldfr(s) => format!("{}{}{}", kw(c, "LDFR"), sp, rsrc(c, s)),
        Bits(d, s) => dsx(c, "BITS", d, s, &sp, &cm),
        Bitc(d, s) => dsx(c, "BITC", d, s, &sp, &cm),
        Cmp(d, s) => dsx(c, "CMP", d, s, &sp, &cm),
        Bitt(d, s) => dsx(c, "BITT", d, s, &sp, &cm),
        Mov(d, s) => dsx(c, "MOV", d, s, &sp, &cm),
        LdConstant(x, k) => format!("{}{}{}{}{}", kw(c, "LD"), sp, rreg(c, *x), cm, rk(c, k)),
        LdMemAddress(x, a) => format!("{}{}{}{}{}", kw(c, "LD"), sp, rreg(c, *x), cm, rmem(c, a)),
        St(a, x) => format!("{}{}{}{}{}", kw(c, "ST"), sp, rmem(c, a), cm, rreg(c, *x)),
        PushF => kw(c, "PUSHF"),
        PopF => kw(c, "POPF"),
        Ret => kw(c, "RET"),
        RetI => kw(c, "RETI"),
        Stop => kw(c, "STOP"),
        Nop => kw(c, "NOP"),
        Ei => kw(c, "EI"),
        Di => kw(c, "DI"),
        Jmp(l) => lab(c, "JMP", l, &sp),
        Jcs(l) => lab(c, "JCS", l, &sp),
        Jcc(l) => lab(c, "JCC", l, &sp),
        Jzs(l) => lab(c, "JZS", l, &sp),
        Jzc(l) => lab(c, "JZC", l, &sp),
        Jns(l) => lab(c, "JNS", l, &sp),
        Jnc(l) => lab(c, "JNC", l, &sp),
        Jr(l) => lab(c, "JR", l, &sp),
        Call(l) => lab(c, "CALL", l, &sp),
    }
}

fn render_comment(c: &mut Choice, cm: &Option<String>) -> String {
    match cm {
        None => String::new(),
        Some(t) => {
            let pads = ["", " ", "\t", ";", "; ;", " ; "];
            format!(";{}{}{}", c.pick(&pads[..]), t, c.pick(&pads[..]))
        }
    }
}

pub fn render(a: &Asm, seed: u64) -> String {
    let mut c = Choice::new(seed);
    let c = &mut c;
    let mut s = String::from("#! mrasm");
    if a.comment_after_shebang.is_some() {
        if c.chance(50) {
            s.push(if c.chance(50) { ' ' } else { '\t' });
        }
        s += &render_comment(c, &a.comment_after_shebang);
    } else if c.chance(20) {
        s.push(' ');
    }
    let mut last_cr = false;
    for l in &a.lines {
        // never "\n" right after a bare "\r" (they would merge into one CRLF)
        let t = *c.pick(&["\n", "\n", "\n", "\r\n", "\r"][..]);
        let t = if last_cr && t == "\n" { "\r\n" } else { t };
        let _ = last_cr;
        s += t;
        last_cr = t == "\r";
        let before = s.len();
        s += &ws0(c);
        s += &ws0(c);
        match l {
            Line::Empty(cm) => {
                s += &render_comment(c, cm);
            }
            Line::Label(n, cm) => {
                s += n;
                s.push(':');
                s += &ws0(c);
                s += &render_comment(c, cm);
            }
            Line::Instruction(i, cm) => {
                s += &render_instr(c, i);
                s += &ws0(c);
                s += &render_comment(c, cm);
            }
        }
        if s.len() > before {
            last_cr = false;
        }
    }
    s
}

// ---------------------------------------------------------------------------------------------
// mutation and soups

pub const TOKENS: [&str; 52] = [
    "R0", "r1", "PC", "pc", "(", ")", "+", ",", ", ", " ", "\t", ":", ";", "0x", "0b", "0", "1", "9", "256", "255", "65536", "65535", "F", "G", "LD", "ST", "MOV", "NOP", ".ORG", ".EQU", "X", "_", "\n", "\r", "#! mrasm", "é", "SP", "*STACKSIZE", "16", "NOSET", "AUTO", "0b111111111", "0x100", "000", "DEC", ".DB", ".DW", "JR", "((", "+)", "R4", "r",
];

#[derive(Clone, Debug)]
pub struct Mutation {
    pub pos: u32,
    pub kind: u8,
    pub tok: u8,
    pub extra: u8,
}

pub fn mutation_strategy() -> impl Strategy<Value = Mutation> {
    (any::<u32>(), 0u8..4, 0u8..(TOKENS.len() as u8), 0u8..4).prop_map(|(pos, kind, tok, extra)| Mutation { pos, kind, tok, extra })
}

pub fn mutate(s: &str, m: &Mutation) -> String {
    let cs: Vec<char> = s.chars().collect();
    let tok = TOKENS[m.tok as usize % TOKENS.len()];
    if cs.is_empty() {
        return tok.to_string();
    }
    // monotone index mapping so that shrinking `pos` moves the mutation towards the start
    let p = ((m.pos as u64 * (cs.len() as u64 + 1)) >> 32) as usize;
    let mut out: String = cs[..p].iter().collect();
    match m.kind {
        0 => {
            out += tok;
            out.extend(cs[p..].iter());
        }
        1 => {
            out.extend(cs[(p + 1).min(cs.len())..].iter());
        }
        2 => {
            out += tok;
            out.extend(cs[(p + 1 + m.extra as usize).min(cs.len())..].iter());
        }
        _ => {
            // duplicate a stretch
            let q = (p + 1 + 3 * m.extra as usize).min(cs.len());
            out.extend(cs[p..q].iter());
            out.extend(cs[p..].iter());
        }
    }
    out
}

pub const SOUP: [&str; 54] = [
    "#! mrasm", "\n", "\n", " ", " ", "R0", "R1", "r2", "R3", "PC", "(", ")", "+", ",", ", ", ":", ";", "0x1F", "0b101", "12", "255", "256", "LD", "ST", "MOV", "CMP", "DEC", "JR", "JMP", "CALL", "LOOP", "loop", "X", ".ORG", ".DB", ".DW", ".EQU", ".BYTE", "NOP", "STOP", "RET", "RETI", "EI", "LDSP", "*STACKSIZE", "*PROGRAMSIZE", "AUTO", "16", "é", "\t", "\r", "65536", "0x", "LOOP:",
];

pub fn soup_strategy() -> impl Strategy<Value = String> {
    (prop_oneof![6 => Just(true), 1 => Just(false)], prop::collection::vec(prop::sample::select(SOUP.to_vec()), 0..40)).prop_map(|(hdr, toks)| {
        let mut s = if hdr { String::from("#! mrasm\n") } else { String::new() };
        for t in toks {
            s += t;
        }
        s
    })
}
