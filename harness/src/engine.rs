//! Shared plumbing: context, evidence, known findings, replay files, proptest driver,
//! parallel helpers, panic capture.
#![allow(dead_code)]

use proptest::strategy::{Strategy, ValueTree};
use proptest::test_runner::{Config, RngAlgorithm, RngSeed, TestCaseError, TestError, TestRng, TestRunner};
use serde_json::{json, Map, Value};
use std::collections::{BTreeMap, HashSet};
use std::hash::{Hash, Hasher};
use std::path::PathBuf;
use std::sync::Mutex;
use std::time::Instant;

pub const VERIF_DIR: &str = "/verif";

#[derive(Clone, Copy, PartialEq, Eq, Debug)]
pub enum Tier {
    Quick,
    Thorough,
}

impl Tier {
    pub fn name(self) -> &'static str {
        match self {
            Tier::Quick => "quick",
            Tier::Thorough => "thorough",
        }
    }
    /// pick by tier
    pub fn pick<T>(self, q: T, t: T) -> T {
        match self {
            Tier::Quick => q,
            Tier::Thorough => t,
        }
    }
}

pub struct Ctx {
    pub id: String,
    pub tier: Tier,
    pub seed: u64,
    pub start: Instant,
    pub replay: Option<PathBuf>,
    pub strict: bool,
    pub threads: usize,
}

/// One reported violation.
#[derive(Clone, Debug)]
pub struct Violation {
    /// root-cause signature (no blanks); matched against known-findings.txt
    pub signature: String,
    /// human readable description
    pub detail: String,
    /// the failing case as JSON (becomes the replay file)
    pub case: Value,
    /// which sub-check produced it (used by --replay to dispatch)
    pub kind: String,
}

#[derive(Default)]
pub struct Evidence {
    pub evaluations: u64,
    pub nontrivial: HashSet<u64>,
    pub samples: Vec<Value>,
    pub classes: BTreeMap<String, u64>,
    pub exhaustive: Option<bool>,
    pub extra: Map<String, Value>,
    pub assumptions: Vec<String>,
    pub rule: String,
    pub level: String,
    pub violations: Vec<Violation>,
    pub excluded_known: u64,
    pub parts: Vec<Value>,
}

impl Evidence {
    pub fn new(level: &str, rule: &str) -> Self {
        Evidence {
            level: level.to_string(),
            rule: rule.to_string(),
            ..Default::default()
        }
    }
    pub fn class(&mut self, name: &str, n: u64) {
        *self.classes.entry(name.to_string()).or_insert(0) += n;
    }
    pub fn sample(&mut self, v: Value) {
        if self.samples.len() < 24 {
            self.samples.push(v);
        }
    }
    pub fn nontrivial<H: Hash>(&mut self, h: &H) {
        self.nontrivial.insert(hash_of(h));
    }
    pub fn merge(&mut self, other: Evidence) {
        self.evaluations += other.evaluations;
        self.nontrivial.extend(other.nontrivial);
        for s in other.samples {
            self.sample(s);
        }
        for (k, v) in other.classes {
            *self.classes.entry(k).or_insert(0) += v;
        }
        self.violations.extend(other.violations);
        self.excluded_known += other.excluded_known;
        self.parts.extend(other.parts);
        for (k, v) in other.extra {
            self.extra.insert(k, v);
        }
    }
    pub fn violation(&mut self, kind: &str, signature: &str, detail: String, case: Value) {
        // keep at most a handful of violations per signature
        let n = self.violations.iter().filter(|v| v.signature == signature).count();
        if n < 3 {
            self.violations.push(Violation {
                signature: signature.replace(char::is_whitespace, "_"),
                detail,
                case,
                kind: kind.to_string(),
            });
        }
    }
}

pub fn hash_of<H: Hash>(h: &H) -> u64 {
    let mut s = std::collections::hash_map::DefaultHasher::new();
    h.hash(&mut s);
    s.finish()
}

/// splitmix64 – used only to expand a *generated* seed value into bulk data (RAM
/// backgrounds); the seed itself always comes from the proptest generator.
pub fn mix(mut z: u64) -> u64 {
    z = z.wrapping_add(0x9E37_79B9_7F4A_7C15);
    z = (z ^ (z >> 30)).wrapping_mul(0xBF58_476D_1CE4_E5B9);
    z = (z ^ (z >> 27)).wrapping_mul(0x94D0_49BB_1331_11EB);
    z ^ (z >> 31)
}

/// Deterministic expander of a generated seed (see `mix`).
#[derive(Clone)]
pub struct Expand(pub u64);
impl Expand {
    pub fn next(&mut self) -> u64 {
        self.0 = self.0.wrapping_add(0x9E37_79B9_7F4A_7C15);
        mix(self.0)
    }
    pub fn u8(&mut self) -> u8 {
        (self.next() >> 32) as u8
    }
    pub fn below(&mut self, n: u64) -> u64 {
        ((self.next() >> 11) as u128 * n as u128 >> 53) as u64
    }
    pub fn chance(&mut self, num: u64, den: u64) -> bool {
        self.below(den) < num
    }
    pub fn pick<'a, T>(&mut self, xs: &'a [T]) -> &'a T {
        &xs[self.below(xs.len() as u64) as usize]
    }
}

// ---------------------------------------------------------------------------------------
// known findings

#[derive(Clone, Debug)]
pub struct Known {
    pub property: String,
    pub signature: String,
    pub what: String,
}

pub fn load_known(property: &str) -> Vec<Known> {
    let path = format!("{}/known-findings.txt", VERIF_DIR);
    let text = std::fs::read_to_string(&path).unwrap_or_default();
    let mut out = vec![];
    for line in text.lines() {
        let line = line.trim();
        if !line.starts_with("known:") {
            continue; // "fixed:" lines and comments suppress nothing
        }
        let rest = line["known:".len()..].trim();
        let mut prop = None;
        let mut sig = None;
        let mut what = vec![];
        for tok in rest.split_whitespace() {
            if let Some(p) = tok.strip_prefix("property=") {
                prop = Some(p.to_string());
            } else if let Some(s) = tok.strip_prefix("sig=") {
                sig = Some(s.to_string());
            } else {
                what.push(tok);
            }
        }
        if let (Some(p), Some(s)) = (prop, sig) {
            if p == property {
                out.push(Known {
                    property: p,
                    signature: s,
                    what: what.join(" "),
                });
            }
        }
    }
    out
}

pub fn is_known(known: &[Known], sig: &str) -> bool {
    known.iter().any(|k| k.signature == sig)
}

// ---------------------------------------------------------------------------------------
// finishing a run: evidence file, VIOLATION / KNOWN-FINDING lines, exit code

pub fn finish(ctx: &Ctx, ev: Evidence) -> i32 {
    let known = load_known(&ctx.id);
    let mut new_violations: Vec<&Violation> = vec![];
    let mut known_hit: BTreeMap<String, u64> = BTreeMap::new();
    for v in &ev.violations {
        if !ctx.strict && is_known(&known, &v.signature) {
            *known_hit.entry(v.signature.clone()).or_insert(0) += 1;
        } else {
            new_violations.push(v);
        }
    }
    // KNOWN-FINDING lines: one per listed finding of this property
    if !ctx.strict {
        for k in &known {
            println!(
                "KNOWN-FINDING: property={} sig={} {} (re-observed in this run: {})",
                ctx.id,
                k.signature,
                k.what,
                if known_hit.contains_key(&k.signature) || ev.excluded_known > 0 {
                    "yes/excluded-by-construction"
                } else {
                    "not sampled"
                }
            );
        }
    }
    let mut replay_paths = vec![];
    let _ = std::fs::create_dir_all(format!("{}/replays", VERIF_DIR));
    let mut seen = HashSet::new();
    for v in &new_violations {
        if !seen.insert(v.signature.clone()) {
            continue;
        }
        let h = hash_of(&(v.signature.clone(), v.case.to_string()));
        let path = format!("{}/replays/{}-{:016x}.json", VERIF_DIR, ctx.id, h);
        let doc = json!({
            "property": ctx.id,
            "kind": v.kind,
            "signature": v.signature,
            "detail": v.detail,
            "seed": ctx.seed,
            "tier": ctx.tier.name(),
            "case": v.case,
        });
        if ctx.replay.is_none() {
            let _ = std::fs::write(&path, serde_json::to_string_pretty(&doc).unwrap());
        }
        replay_paths.push((path, v));
    }
    for (p, v) in &replay_paths {
        let shown = if let Some(r) = &ctx.replay {
            r.display().to_string()
        } else {
            p.clone()
        };
        println!("VIOLATION property={} replay={}", ctx.id, shown);
        println!("  signature: {}", v.signature);
        let d: String = v.detail.chars().take(1500).collect();
        println!("  detail: {}", d);
    }
    // evidence
    let wall = ctx.start.elapsed().as_secs_f64();
    let mut cov = Map::new();
    cov.insert("evaluations".into(), json!(ev.evaluations));
    cov.insert("distinct_nontrivial".into(), json!(ev.nontrivial.len()));
    cov.insert("rule".into(), json!(ev.rule));
    cov.insert("samples".into(), Value::Array(ev.samples.clone()));
    cov.insert("classes".into(), json!(ev.classes));
    if let Some(e) = ev.exhaustive {
        cov.insert("exhaustive".into(), json!(e));
    }
    cov.insert("excluded_known_finding_shapes".into(), json!(ev.excluded_known));
    cov.insert(
        "known_findings_listed".into(),
        json!(known.iter().map(|k| k.signature.clone()).collect::<Vec<_>>()),
    );
    cov.insert("known_findings_reobserved".into(), json!(known_hit));
    if !ev.parts.is_empty() {
        cov.insert("parts".into(), Value::Array(ev.parts.clone()));
    }
    for (k, v) in &ev.extra {
        cov.insert(k.clone(), v.clone());
    }
    let doc = json!({
        "property_id": ctx.id,
        "tier": ctx.tier.name(),
        "seed": ctx.seed,
        "level": ev.level,
        "coverage": Value::Object(cov),
        "assumptions": ev.assumptions,
        "wall_s": (wall * 1000.0).round() / 1000.0,
        "violations": new_violations.len(),
    });
    if ctx.replay.is_none() {
        let _ = std::fs::create_dir_all(format!("{}/evidence", VERIF_DIR));
        let path = format!("{}/evidence/{}.json", VERIF_DIR, ctx.id);
        std::fs::write(&path, serde_json::to_string_pretty(&doc).unwrap()).expect("write evidence");
    }
    println!(
        "{} {} seed={} evaluations={} distinct_nontrivial={} violations={} known_reobserved={} wall={:.1}s",
        ctx.id,
        ctx.tier.name(),
        ctx.seed,
        ev.evaluations,
        ev.nontrivial.len(),
        new_violations.len(),
        known_hit.len(),
        wall
    );
    if !new_violations.is_empty() {
        return 1;
    }
    // generator health: a run whose number of distinct non-trivial cases collapsed (to under 30 % of
    // what the same tier explores on the unchanged tree) has not shown that the property holds
    if ctx.replay.is_none() {
        let quick_baseline: u64 = match ctx.id.as_str() {
            "C01" => 1_500_000,
            "C02" => 37_000,
            "C03" => 390_000,
            "C04" => 3_200_000,
            "C05" => 275_000,
            "C06" => 53_000,
            "C07" => 110_000,
            "C08" => 2_097_152,
            "C09" => 1_616,
            "C10" => 200_000,
            "C11" => 380_000,
            "C12" => 230_000,
            "C13" => 140_000,
            "C14" => 315_000,
            "C15" => 1_170_000,
            "C16" => 48_000,
            "C17" => 5_700,
            _ => 0,
        };
        if (ev.nontrivial.len() as u64) * 10 < quick_baseline * 3 {
            println!(
                "INCONCLUSIVE property={} only {} distinct non-trivial cases were explored (the quick tier reaches about {} on the unchanged tree): generator health check failed, nothing is claimed",
                ctx.id,
                ev.nontrivial.len(),
                quick_baseline
            );
            return 2;
        }
    }
    0
}

// ---------------------------------------------------------------------------------------
// parallel helpers (deterministic: results merged in index order)

pub fn par_chunks<T: Send, F: Fn(usize) -> T + Sync>(threads: usize, n: usize, f: F) -> Vec<T> {
    let results: Mutex<Vec<Option<T>>> = Mutex::new((0..n).map(|_| None).collect());
    let next = std::sync::atomic::AtomicUsize::new(0);
    let panicked: Mutex<Option<String>> = Mutex::new(None);
    std::thread::scope(|s| {
        for _ in 0..threads.min(n.max(1)) {
            s.spawn(|| loop {
                let i = next.fetch_add(1, std::sync::atomic::Ordering::SeqCst);
                if i >= n {
                    break;
                }
                match catch(|| f(i)) {
                    Ok(r) => results.lock().unwrap()[i] = Some(r),
                    Err(p) => {
                        let mut g = panicked.lock().unwrap();
                        if g.is_none() {
                            *g = Some(p);
                        }
                        break;
                    }
                }
            });
        }
    });
    if let Some(p) = panicked.into_inner().unwrap() {
        // re-raise in the calling thread with the original message and location
        panic!("{}", p);
    }
    results.into_inner().unwrap().into_iter().map(|x| x.unwrap()).collect()
}

// ---------------------------------------------------------------------------------------
// proptest driver

pub fn runner(seed: u64, cases: u32) -> TestRunner {
    let config = Config {
        cases,
        failure_persistence: None,
        rng_seed: RngSeed::Fixed(seed),
        rng_algorithm: RngAlgorithm::ChaCha,
        max_shrink_iters: 4096,
        max_global_rejects: 1 << 20,
        max_local_rejects: 1 << 16,
        verbose: 0,
        ..Config::default()
    };
    TestRunner::new(config)
}

pub fn rng_from_seed(seed: u64) -> TestRng {
    let mut bytes = [0u8; 32];
    for i in 0..4 {
        bytes[i * 8..i * 8 + 8].copy_from_slice(&mix(seed.wrapping_add(i as u64)).to_le_bytes());
    }
    TestRng::from_seed(RngAlgorithm::ChaCha, &bytes)
}

/// Outcome of checking one generated case.
pub enum Verdict {
    Pass,
    /// violation with (signature, detail)
    Fail(String, String),
}

/// Generate `cases` values from `strat` (seeded), call `check` on each; on the first failure
/// whose signature is not in `tolerated`, shrink it (keeping the same signature) and return
/// it. Failures with tolerated signatures are collected un-shrunk (first occurrence each).
pub struct SearchResult<V> {
    pub generated: u64,
    pub failure: Option<(V, String, String)>,
    pub tolerated: Vec<(V, String, String)>,
}

pub fn search<S, F>(seed: u64, cases: u32, strat: &S, tolerated: &[String], mut check: F) -> SearchResult<S::Value>
where
    S: Strategy,
    S::Value: Clone,
    F: FnMut(&S::Value, bool) -> Verdict,
{
    let mut r = runner(seed, cases);
    let mut generated = 0u64;
    let mut tol_seen: Vec<(S::Value, String, String)> = vec![];
    for _ in 0..cases {
        let mut tree = match strat.new_tree(&mut r) {
            Ok(t) => t,
            Err(_) => continue,
        };
        generated += 1;
        let v = tree.current();
        match guarded(&mut check, &v, true) {
            Verdict::Pass => {}
            Verdict::Fail(sig, detail) => {
                if tolerated.iter().any(|t| *t == sig) {
                    if !tol_seen.iter().any(|(_, s, _)| *s == sig) {
                        tol_seen.push((v, sig, detail));
                    }
                    continue;
                }
                // shrink, keeping the signature
                let mut best = (v, sig.clone(), detail);
                let mut iters = 0;
                loop {
                    if iters > 3000 {
                        break;
                    }
                    if !tree.simplify() {
                        break;
                    }
                    loop {
                        iters += 1;
                        let cur = tree.current();
                        match guarded(&mut check, &cur, false) {
                            Verdict::Fail(s2, d2) if s2 == sig => {
                                best = (cur, s2, d2);
                                break;
                            }
                            _ => {
                                if !tree.complicate() {
                                    break;
                                }
                            }
                        }
                        if iters > 3000 {
                            break;
                        }
                    }
                }
                return SearchResult {
                    generated,
                    failure: Some(best),
                    tolerated: tol_seen,
                };
            }
        }
    }
    SearchResult {
        generated,
        failure: None,
        tolerated: tol_seen,
    }
}

/// Calls the check; a panic escaping from the code under test is a failure of its own kind.
pub fn guarded<V, F: FnMut(&V, bool) -> Verdict>(check: &mut F, v: &V, first: bool) -> Verdict {
    match catch(|| check(v, first)) {
        Ok(v) => v,
        Err(p) => Verdict::Fail(panic_signature(&p), format!("panic: {}", p)),
    }
}

/// Same as `search`, run on `parts` independent sub-seeds in parallel.  The strategy is built
/// inside each worker (boxed strategies are not `Sync`).
pub fn par_search<S, M, F>(
    threads: usize,
    parts: usize,
    seed: u64,
    cases_total: u64,
    make: M,
    tolerated: &[String],
    check: F,
) -> Vec<SearchResult<S::Value>>
where
    S: Strategy,
    M: Fn() -> S + Sync,
    S::Value: Clone + Send,
    F: Fn(&S::Value, bool, usize) -> Verdict + Sync,
{
    let per = ((cases_total + parts as u64 - 1) / parts as u64) as u32;
    par_chunks(threads, parts, |i| {
        let strat = make();
        search(mix(seed ^ ((i as u64) << 32) ^ 0xA5A5), per, &strat, tolerated, |v, first| check(v, first, i))
    })
}

pub fn fail_case(msg: impl Into<String>) -> TestCaseError {
    TestCaseError::fail(msg.into())
}

pub fn _unused(_: TestError<()>) {}

// ---------------------------------------------------------------------------------------
// panic capture

thread_local! {
    static LAST_PANIC: std::cell::RefCell<Option<String>> = std::cell::RefCell::new(None);
}

pub fn install_panic_hook() {
    std::panic::set_hook(Box::new(|info| {
        let loc = info
            .location()
            .map(|l| {
                let f = l.file();
                // normalise the path: keep from the crate directory on
                let f = f
                    .rsplit_once("/repo/")
                    .map(|x| x.1)
                    .or_else(|| f.rsplit_once("/registry/src/").map(|x| x.1))
                    .unwrap_or(f);
                format!("{}:{}", f, l.line())
            })
            .unwrap_or_else(|| "?".into());
        let msg = if let Some(s) = info.payload().downcast_ref::<&str>() {
            s.to_string()
        } else if let Some(s) = info.payload().downcast_ref::<String>() {
            s.clone()
        } else {
            "?".into()
        };
        // a message re-raised by par_chunks already carries "message @ location"
        let full = if msg.contains(" @ ") { msg } else { format!("{} @ {}", msg, loc) };
        LAST_PANIC.with(|p| *p.borrow_mut() = Some(full));
    }));
}

/// Run `f`, converting a panic into Err("message @ file:line").
pub fn catch<T, F: FnOnce() -> T>(f: F) -> Result<T, String> {
    LAST_PANIC.with(|p| *p.borrow_mut() = None);
    match std::panic::catch_unwind(std::panic::AssertUnwindSafe(f)) {
        Ok(v) => Ok(v),
        Err(_) => Err(LAST_PANIC.with(|p| p.borrow_mut().take()).unwrap_or_else(|| "panic".into())),
    }
}

/// Signature of a panic: "panic:<file>:<first words of message>", blanks replaced.
pub fn panic_signature(p: &str) -> String {
    let (msg, loc) = p.rsplit_once(" @ ").unwrap_or((p, "?"));
    // strip the line number: refactorings move lines; keep file + message head
    let file = loc.rsplit_once(':').map(|x| x.0).unwrap_or(loc);
    let head: String = msg
        .chars()
        .take(48)
        .map(|c| if c.is_alphanumeric() { c } else { '_' })
        .collect();
    format!("panic:{}:{}", file, head)
}

pub fn hex(bytes: &[u8]) -> String {
    bytes.iter().map(|b| format!("{:02X}", b)).collect::<Vec<_>>().join(" ")
}
