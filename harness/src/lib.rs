//! Library part of the harness: shared by the `check` binary and the fuzz targets.
#![allow(dead_code)]
pub mod engine;
pub mod isa;
pub mod mach;
pub mod progen_sem;
pub mod refasm;
pub mod refparse;
pub mod textgen;
pub mod props;
pub mod fuzzsupport;
