//! Hand-written, line-oriented reference recogniser and AST builder for mrasm
//! (DESIGN.md Appendix C).  No PEG engine, nothing shared with mrasm.pest.
#![allow(dead_code)]
use emulator_2a_lib::parser::*;

#[derive(Debug, Clone, PartialEq)]
pub enum RefErr {
    Syntax(usize, &'static str), // line index, reason
    TooManyLabels,
    Undefined(Vec<String>),
}

struct Cur<'a> {
    s: &'a [u8],
    p: usize,
}

impl<'a> Cur<'a> {
    fn peek(&self) -> Option<u8> {
        self.s.get(self.p).copied()
    }
    fn eat(&mut self, c: u8) -> bool {
        if self.peek() == Some(c) {
            self.p += 1;
            true
        } else {
            false
        }
    }
    fn ws0(&mut self) -> usize {
        let st = self.p;
        while matches!(self.peek(), Some(b' ') | Some(b'\t')) {
            self.p += 1;
        }
        self.p - st
    }
    fn rest(&self) -> &'a [u8] {
        &self.s[self.p..]
    }
    fn starts_ci(&self, kw: &str) -> bool {
        let r = self.rest();
        r.len() >= kw.len() && r[..kw.len()].eq_ignore_ascii_case(kw.as_bytes())
    }
}

fn split_lines(input: &str) -> Vec<&str> {
    let b = input.as_bytes();
    let mut out = vec![];
    let mut st = 0;
    let mut i = 0;
    while i < b.len() {
        if b[i] == b'\n' {
            out.push(&input[st..i]);
            i += 1;
            st = i;
        } else if b[i] == b'\r' {
            out.push(&input[st..i]);
            i += if b.get(i + 1) == Some(&b'\n') { 2 } else { 1 };
            st = i;
        } else {
            i += 1;
        }
    }
    out.push(&input[st..]);
    out
}

fn trim_comment(s: &str) -> String {
    s.trim_matches(|c| c == ' ' || c == '\t' || c == ';').to_string()
}

fn name(c: &mut Cur) -> Option<String> {
    // identifier not starting with R / PC / SP (any case)
    if c.starts_ci("R") || c.starts_ci("PC") || c.starts_ci("SP") {
        return None;
    }
    let st = c.p;
    match c.peek() {
        Some(x) if x.is_ascii_alphabetic() || x == b'_' => c.p += 1,
        _ => return None,
    }
    while matches!(c.peek(), Some(x) if x.is_ascii_alphanumeric() || x == b'_') {
        c.p += 1;
    }
    Some(String::from_utf8(c.s[st..c.p].to_vec()).unwrap())
}

fn register(c: &mut Cur) -> Option<Register> {
    let r = c.rest();
    if r.len() >= 2 && (r[0] == b'R' || r[0] == b'r') && (b'0'..=b'3').contains(&r[1]) {
        c.p += 2;
        return Some([Register::R0, Register::R1, Register::R2, Register::R3][(r[1] - b'0') as usize]);
    }
    if r.starts_with(b"PC") {
        c.p += 2;
        return Some(Register::R3);
    }
    None
}

/// number with prefix 0b / 0x / none; any leading zeros; value <= max
fn number(c: &mut Cur, max: u32, allow_prefix: bool) -> Option<u32> {
    let save = c.p;
    let r = c.rest();
    let (radix, skip) = if allow_prefix && r.starts_with(b"0b") && r.len() > 2 && (r[2] == b'0' || r[2] == b'1') {
        (2, 2)
    } else if allow_prefix && r.starts_with(b"0x") && r.len() > 2 && r[2].is_ascii_hexdigit() {
        (16, 2)
    } else {
        (10, 0)
    };
    c.p += skip;
    let st = c.p;
    while matches!(c.peek(), Some(x) if (x as char).is_digit(radix)) {
        c.p += 1;
    }
    if c.p == st {
        c.p = save;
        return None;
    }
    let txt = std::str::from_utf8(&c.s[st..c.p]).unwrap().trim_start_matches('0');
    let v = if txt.is_empty() { Some(0) } else if txt.len() > 20 { None } else { u64::from_str_radix(txt, radix).ok().filter(|v| *v <= max as u64).map(|v| v as u32) };
    match v {
        Some(v) => Some(v),
        None => {
            c.p = save;
            None
        }
    }
}

fn constant(c: &mut Cur) -> Option<Constant> {
    if let Some(v) = number(c, 255, true) {
        return Some(Constant::Constant(v as u8));
    }
    // a digit start that failed as number can never be a name
    name(c).map(Constant::Label)
}

fn memory(c: &mut Cur) -> Option<MemAddress> {
    let save = c.p;
    if !c.eat(b'(') {
        return None;
    }
    let inner = if let Some(k) = constant(c) { Some(MemAddress::Constant(k)) } else { register(c).map(MemAddress::Register) };
    match inner {
        Some(m) if c.eat(b')') => Some(m),
        _ => {
            c.p = save;
            None
        }
    }
}

fn register_di(c: &mut Cur) -> Option<Register> {
    let save = c.p;
    if c.eat(b'(') {
        if let Some(r) = register(c) {
            if c.eat(b'+') && c.eat(b')') {
                return Some(r);
            }
        }
    }
    c.p = save;
    None
}

fn register_ddi(c: &mut Cur) -> Option<Register> {
    let save = c.p;
    if c.eat(b'(') {
        if let Some(r) = register_di(c) {
            if c.eat(b')') {
                return Some(r);
            }
        }
    }
    c.p = save;
    None
}

fn destination(c: &mut Cur) -> Option<Destination> {
    if let Some(r) = register(c) {
        return Some(Destination::Register(r));
    }
    if let Some(r) = register_di(c) {
        return Some(Destination::RegisterDi(RegisterDi(r)));
    }
    if let Some(r) = register_ddi(c) {
        return Some(Destination::RegisterDdi(RegisterDdi(r)));
    }
    memory(c).map(Destination::MemAddress)
}

fn source(c: &mut Cur) -> Option<Source> {
    if let Some(r) = register(c) {
        return Some(Source::Register(r));
    }
    if let Some(r) = register_di(c) {
        return Some(Source::RegisterDi(RegisterDi(r)));
    }
    if let Some(r) = register_ddi(c) {
        return Some(Source::RegisterDdi(RegisterDdi(r)));
    }
    if let Some(m) = memory(c) {
        return Some(Source::MemAddress(m));
    }
    constant(c).map(Source::Constant)
}

fn comma(c: &mut Cur) -> bool {
    if c.eat(b',') {
        c.ws0();
        true
    } else {
        false
    }
}

fn two_regs(c: &mut Cur) -> Option<(Register, Register)> {
    let a = register(c)?;
    if !comma(c) {
        return None;
    }
    let b = register(c)?;
    Some((a, b))
}

fn dst_src(c: &mut Cur) -> Option<(Destination, Source)> {
    let d = destination(c)?;
    if !comma(c) {
        return None;
    }
    let s = source(c)?;
    Some((d, s))
}

fn instruction(c: &mut Cur) -> Option<Instruction> {
    use Instruction::*;
    // mnemonic: optional '.' or '*' then letters
    let st = c.p;
    if matches!(c.peek(), Some(b'.') | Some(b'*')) {
        c.p += 1;
    }
    while matches!(c.peek(), Some(x) if x.is_ascii_alphabetic()) {
        c.p += 1;
    }
    let m = String::from_utf8(c.s[st..c.p].to_vec()).unwrap().to_ascii_uppercase();
    let no_operand = match m.as_str() {
        "PUSHF" => Some(PushF),
        "POPF" => Some(PopF),
        "RET" => Some(Ret),
        "RETI" => Some(RetI),
        "STOP" => Some(Stop),
        "NOP" => Some(Nop),
        "EI" => Some(Ei),
        "DI" => Some(Di),
        _ => None,
    };
    if no_operand.is_some() {
        return no_operand;
    }
    if c.ws0() == 0 {
        return None;
    }
    let r = match m.as_str() {
        ".ORG" => AsmOrigin(number(c, 255, true)? as u8),
        ".BYTE" => AsmByte(number(c, 255, true)? as u8),
        ".DB" => {
            let mut v = vec![number(c, 255, true)? as u8];
            loop {
                let save = c.p;
                if comma(c) {
                    if let Some(n) = number(c, 255, true) {
                        v.push(n as u8);
                        continue;
                    }
                }
                c.p = save;
                break;
            }
            AsmDefineBytes(v)
        }
        ".DW" => {
            let mut v = vec![number(c, 65535, true)? as u16];
            loop {
                let save = c.p;
                if comma(c) {
                    if let Some(n) = number(c, 65535, true) {
                        v.push(n as u16);
                        continue;
                    }
                }
                c.p = save;
                break;
            }
            AsmDefineWords(v)
        }
        ".EQU" => {
            let n = name(c)?;
            if c.ws0() == 0 {
                return None;
            }
            AsmEquals(n, number(c, 255, false)? as u8)
        }
        "*STACKSIZE" => {
            let st = c.p;
            while matches!(c.peek(), Some(x) if x.is_ascii_alphanumeric()) {
                c.p += 1;
            }
            let t = std::str::from_utf8(&c.s[st..c.p]).unwrap();
            AsmStacksize(match t {
                "0" => Stacksize::_0,
                "16" => Stacksize::_16,
                "32" => Stacksize::_32,
                "48" => Stacksize::_48,
                "64" => Stacksize::_64,
                _ if t.eq_ignore_ascii_case("NOSET") => Stacksize::NotSet,
                _ => return None,
            })
        }
        "*PROGRAMSIZE" => {
            if let Some(n) = number(c, 255, false) {
                AsmProgramsize(Programsize::Size(n as u8))
            } else if c.starts_ci("AUTO") {
                c.p += 4;
                AsmProgramsize(Programsize::Auto)
            } else if c.starts_ci("NOSET") {
                c.p += 5;
                AsmProgramsize(Programsize::NotSet)
            } else {
                return None;
            }
        }
        "CLR" => Clr(register(c)?),
        "INC" => Inc(register(c)?),
        "NEG" => Neg(register(c)?),
        "COM" => Com(register(c)?),
        "TST" => Tst(register(c)?),
        "LSR" => Lsr(register(c)?),
        "ASR" => Asr(register(c)?),
        "LSL" => Lsl(register(c)?),
        "RRC" => Rrc(register(c)?),
        "RLC" => Rlc(register(c)?),
        "PUSH" => Push(register(c)?),
        "POP" => Pop(register(c)?),
        "ADD" => two_regs(c).map(|(a, b)| Add(a, b))?,
        "ADC" => two_regs(c).map(|(a, b)| Adc(a, b))?,
        "SUB" => two_regs(c).map(|(a, b)| Sub(a, b))?,
        "MUL" => two_regs(c).map(|(a, b)| Mul(a, b))?,
        "DIV" => two_regs(c).map(|(a, b)| Div(a, b))?,
        "AND" => two_regs(c).map(|(a, b)| And(a, b))?,
        "OR" => two_regs(c).map(|(a, b)| Or(a, b))?,
        "XOR" => two_regs(c).map(|(a, b)| Xor(a, b))?,
        "DEC" => Dec(source(c)?),
        "LDSP" => Ldsp(source(c)?),
        "LDFR" => Ldfr(source(c)?),
        "BITS" => dst_src(c).map(|(d, s)| Bits(d, s))?,
        "BITC" => dst_src(c).map(|(d, s)| Bitc(d, s))?,
        "CMP" => dst_src(c).map(|(d, s)| Cmp(d, s))?,
        "BITT" => dst_src(c).map(|(d, s)| Bitt(d, s))?,
        "MOV" => dst_src(c).map(|(d, s)| Mov(d, s))?,
        "LD" => {
            let r = register(c)?;
            if !comma(c) {
                return None;
            }
            if let Some(k) = constant(c) {
                LdConstant(r, k)
            } else {
                LdMemAddress(r, memory(c)?)
            }
        }
        "ST" => {
            let m = memory(c)?;
            if !comma(c) {
                return None;
            }
            St(m, register(c)?)
        }
        "JMP" => Jmp(name(c)?),
        "JCS" => Jcs(name(c)?),
        "JCC" => Jcc(name(c)?),
        "JZS" => Jzs(name(c)?),
        "JZC" => Jzc(name(c)?),
        "JNS" => Jns(name(c)?),
        "JNC" => Jnc(name(c)?),
        "JR" => Jr(name(c)?),
        "CALL" => Call(name(c)?),
        _ => return None,
    };
    Some(r)
}

fn parse_line(text: &str, idx: usize) -> Result<Line, RefErr> {
    let mut c = Cur { s: text.as_bytes(), p: 0 };
    c.ws0();
    let mut line = Line::Empty(None);
    // label?
    let save = c.p;
    let mut matched = false;
    if let Some(n) = name(&mut c) {
        if c.eat(b':') {
            line = Line::Label(n, None);
            matched = true;
        }
    }
    if !matched {
        c.p = save;
        if let Some(i) = instruction(&mut c) {
            line = Line::Instruction(i, None);
        } else {
            c.p = save;
        }
    }
    c.ws0();
    let comment = if c.peek() == Some(b';') {
        let t = &text[c.p + 1..];
        c.p = text.len();
        Some(trim_comment(t))
    } else {
        None
    };
    if c.p != text.len() {
        return Err(RefErr::Syntax(idx, "trailing text"));
    }
    Ok(match line {
        Line::Empty(_) => Line::Empty(comment),
        Line::Label(l, _) => Line::Label(l, comment),
        Line::Instruction(i, _) => Line::Instruction(i, comment),
    })
}

pub fn parse(input: &str) -> Result<Asm, RefErr> {
    let segs = split_lines(input);
    let hdr = segs[0];
    if !hdr.starts_with("#! mrasm") {
        return Err(RefErr::Syntax(0, "header"));
    }
    let mut rest = &hdr[8..];
    if rest.starts_with(' ') || rest.starts_with('\t') {
        rest = &rest[1..];
    }
    let comment_after_shebang = if rest.is_empty() {
        None
    } else if let Some(t) = rest.strip_prefix(';') {
        Some(trim_comment(t))
    } else {
        return Err(RefErr::Syntax(0, "header tail"));
    };
    let body: Vec<&str> = if segs.len() == 1 { vec![""] } else { segs[1..].to_vec() };
    let mut lines = vec![];
    for (i, l) in body.iter().enumerate() {
        lines.push(parse_line(l, i + 1)?);
    }
    // validation
    let mut defs: Vec<String> = vec![];
    for l in &lines {
        match l {
            Line::Label(n, _) => defs.push(n.to_ascii_lowercase()),
            Line::Instruction(Instruction::AsmEquals(n, _), _) => defs.push(n.to_ascii_lowercase()),
            _ => {}
        }
    }
    let mut undefined = vec![];
    let mut refs = |k: &Constant, undefined: &mut Vec<String>| {
        if let Constant::Label(n) = k {
            if !defs.contains(&n.to_ascii_lowercase()) {
                undefined.push(n.clone());
            }
        }
    };
    for l in &lines {
        if let Line::Instruction(i, _) = l {
            use Instruction::*;
            let mem = |m: &MemAddress| if let MemAddress::Constant(k) = m { Some(k.clone()) } else { None };
            let src = |s: &Source| match s {
                Source::MemAddress(m) => mem(m),
                Source::Constant(k) => Some(k.clone()),
                _ => None,
            };
            let dst = |d: &Destination| if let Destination::MemAddress(m) = d { mem(m) } else { None };
            let mut ks: Vec<Constant> = vec![];
            match i {
                Jmp(n) | Jcs(n) | Jcc(n) | Jzs(n) | Jzc(n) | Jns(n) | Jnc(n) | Jr(n) | Call(n) => ks.push(Constant::Label(n.clone())),
                LdConstant(_, k) => ks.push(k.clone()),
                LdMemAddress(_, m) | St(m, _) => ks.extend(mem(m)),
                Dec(s) | Ldsp(s) | Ldfr(s) => ks.extend(src(s)),
                Bits(d, s) | Bitc(d, s) | Cmp(d, s) | Bitt(d, s) | Mov(d, s) => {
                    ks.extend(dst(d));
                    ks.extend(src(s));
                }
                _ => {}
            }
            for k in &ks {
                refs(k, &mut undefined);
            }
        }
    }
    if defs.len() > 40 {
        Err(RefErr::TooManyLabels)
    } else if !undefined.is_empty() {
        Err(RefErr::Undefined(undefined))
    } else {
        Ok(Asm { comment_after_shebang, lines })
    }
}
