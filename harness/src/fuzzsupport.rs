//! Entry points for the coverage-guided fuzz targets (thorough tier) and their replay.
//! Each takes raw bytes, decodes them into a case (text, or a proptest strategy driven by the
//! bytes through proptest's pass-through RNG) and runs the same oracles as the checks.
use crate::engine::*;
use crate::props;

/// (property id, signature, detail)
pub type Finding = (String, String, String);

fn known_for(id: &str) -> Vec<String> {
    // the list is read once per process (the fuzzer calls this millions of times)
    static CACHE: std::sync::OnceLock<std::sync::Mutex<std::collections::HashMap<String, Vec<String>>>> = std::sync::OnceLock::new();
    let m = CACHE.get_or_init(|| std::sync::Mutex::new(std::collections::HashMap::new()));
    let mut g = m.lock().unwrap();
    g.entry(id.to_string()).or_insert_with(|| load_known(id).into_iter().map(|k| k.signature).collect()).clone()
}

/// C03 + C02 + C06 + C16 on one text
pub fn text_findings(data: &[u8]) -> Vec<Finding> {
    let text = String::from_utf8_lossy(data).to_string();
    let mut out = vec![];
    let k06 = known_for("C06");
    // rejected by the reference and (C03 passes =>) by the parser: the other three oracles have nothing
    // to say about a rejected text; skip their three extra parses
    if crate::refparse::parse(&text).is_err() {
        return match props::text::check_parse(&text, None) {
            Verdict::Fail(sig, detail) => vec![("C03".to_string(), sig, detail)],
            Verdict::Pass => vec![],
        };
    }
    let checks: [(&str, Verdict); 4] = [
        ("C03", props::text::check_parse(&text, None)),
        ("C02", props::text::check_assemble(&text)),
        ("C06", props::text::check_compile_load(&text).0),
        ("C16", props::text::check_roundtrip(&text).0),
    ];
    for (id, v) in checks {
        if let Verdict::Fail(sig, detail) = v {
            if id == "C06" && k06.contains(&sig) {
                continue;
            }
            if id != "C03" && sig.starts_with("parser:") {
                continue; // reported once, under C03
            }
            out.push((id.to_string(), sig, detail));
        }
    }
    out
}

/// Byte reader for the hand-written decoders (bytes -> structured case).  proptest's pass-through
/// RNG was tried first and dropped: some strategies fork the RNG, which halves the remaining data
/// each time, and rand's rejection sampling never terminates on the zeros an exhausted
/// pass-through RNG yields (observed as a 1200 s libFuzzer timeout on the first seed input).
struct Rd<'a> {
    d: &'a [u8],
    p: usize,
}
impl<'a> Rd<'a> {
    fn u8(&mut self) -> u8 {
        let v = self.d.get(self.p).copied().unwrap_or(0);
        self.p += 1;
        v
    }
    fn u32(&mut self) -> u32 {
        u32::from_le_bytes([self.u8(), self.u8(), self.u8(), self.u8()])
    }
    fn done(&self) -> bool {
        self.p >= self.d.len()
    }
}

fn decode_image(r: &mut Rd) -> Vec<u8> {
    let n = (r.u8() as usize) % 0xF1;
    (0..n).map(|_| r.u8()).collect()
}

fn decode_c13(r: &mut Rd) -> props::c13::Script {
    use props::c13::Op;
    let stack = r.u8() % 5;
    let psize = match r.u8() {
        0 => None,
        n => Some(n),
    };
    let image = decode_image(r);
    let mut ops = vec![];
    while !r.done() && ops.len() < 200 {
        let k = r.u8();
        ops.push(match k % 17 {
            0 | 1 | 2 => Op::Edges(k / 17 * 4 + 1),
            3 => Op::AsmStep,
            4 => Op::KeyInt,
            5 => Op::Continue,
            6 => Op::CpuReset,
            7 => Op::MasterReset,
            8 => Op::Input(k / 17 % 4, r.u8()),
            9 => Op::DigitalIn(r.u8()),
            10 => Op::Volt(k / 17 % 3, r.u32()),
            11 => Op::Jumper(k / 17 % 2, k & 0x80 != 0),
            12 => Op::Uio(k / 17 % 3, k & 0x80 != 0),
            13 => Op::BusWrite(0xF0 | (k / 17), r.u8()),
            14 => Op::BusWrite(r.u8(), r.u8()),
            15 => Op::Board(k / 17 % 8, r.u8()),
            _ => Op::BusRead(r.u8()),
        });
    }
    props::c13::Script { image, stack, psize, ops }
}

fn raw_prog(image: &[u8]) -> Vec<crate::progen_sem::Tm> {
    image.iter().map(|b| crate::progen_sem::Tm::Raw(*b)).collect()
}

fn decode_c05(r: &mut Rd) -> props::c05::SupCase {
    use props::c05::{Fill, Stim};
    let stack = r.u8() % 5;
    let limit = r.u8();
    let fill = if r.u8() & 1 == 0 { Fill::Zero } else { Fill::Nops };
    let image = decode_image(r);
    let mut stims = vec![];
    while !r.done() && stims.len() < 12 {
        let k = r.u8();
        stims.push(match k % 6 {
            0 => Stim::ClockReal(k / 6 + 1),
            1 => Stim::ClockAsm(k / 6 % 4 + 1),
            2 => Stim::KeyInt,
            3 => Stim::Input(k / 6 % 4, r.u8()),
            4 => Stim::Temp(r.u32()),
            _ => Stim::Uio(k / 6 % 3, k & 0x80 != 0),
        });
    }
    props::c05::SupCase { stack, limit: Some(limit), via_text: false, prog: raw_prog(&image), patches: vec![], fill, inp: [2, 2, 1, 0], max_instr: 300, stims }
}

fn decode_c11(r: &mut Rd) -> props::c11::StepCase {
    use props::c11::Op;
    let stack = r.u8() % 5;
    let limit = r.u8() | 0x80;
    let int_prelude = r.u8() & 1 == 1;
    let image = decode_image(r);
    let mut ops = vec![];
    while !r.done() && ops.len() < 80 {
        let k = r.u8();
        ops.push(match k % 8 {
            0 | 1 => Op::Edges(k / 8 % 12 + 1),
            2 | 3 | 4 => Op::AsmStep,
            5 => Op::KeyInt,
            6 => Op::Continue,
            _ => Op::Input(k / 8 % 4, r.u8()),
        });
    }
    props::c11::StepCase { prog: raw_prog(&image), fill: props::c05::Fill::Nops, inp: [2, 2, 2, 2], stack, limit, int_prelude, ops }
}

/// first byte selects the property, the rest is decoded into its case type
pub fn machine_findings(data: &[u8]) -> Vec<Finding> {
    if data.is_empty() {
        return vec![];
    }
    let mut r = Rd { d: data, p: 1 };
    let (id, v): (&str, Verdict) = match data[0] % 4 {
        0 | 1 => ("C13", props::c13::run_script(&decode_c13(&mut r)).0),
        2 => ("C05", props::c05::check_sup(&decode_c05(&mut r)).0),
        _ => ("C11", props::c11::check_steps(&decode_c11(&mut r)).0),
    };
    match v {
        Verdict::Fail(sig, detail) => {
            if known_for(id).contains(&sig) {
                vec![]
            } else {
                vec![(id.to_string(), sig, detail)]
            }
        }
        Verdict::Pass => vec![],
    }
}

/// used by the fuzz targets: report and abort on a finding
pub fn abort_on(findings: Vec<Finding>) {
    if let Some((id, sig, detail)) = findings.into_iter().next() {
        eprintln!("FUZZ-FINDING property={} sig={} {}", id, sig, detail.chars().take(600).collect::<String>());
        std::process::abort();
    }
}

pub fn init_once() {
    static ONCE: std::sync::Once = std::sync::Once::new();
    ONCE.call_once(|| {
        // replace libFuzzer's aborting panic hook: panics of the code under test are caught and judged
        // by the oracles (known findings are tolerated), findings abort explicitly
        install_panic_hook();
    });
}
