//! Entry points for the coverage-guided fuzz targets (thorough tier) and their replay.
//! Each takes raw bytes, decodes them into a case (text, or a proptest strategy driven by the
//! bytes through proptest's pass-through RNG) and runs the same oracles as the checks.
use crate::engine::*;
use crate::props;
use proptest::strategy::{Strategy, ValueTree};
use proptest::test_runner::{Config, RngAlgorithm, TestRng, TestRunner};

/// (property id, signature, detail)
pub type Finding = (String, String, String);

fn known_for(id: &str) -> Vec<String> {
    // the list is read once per process (the fuzzer calls this millions of times)
    static CACHE: std::sync::OnceLock<std::sync::Mutex<std::collections::HashMap<String, Vec<String>>>> = std::sync::OnceLock::new();
    let m = CACHE.get_or_init(|| std::sync::Mutex::new(std::collections::HashMap::new()));
    let mut g = m.lock().unwrap();
    g.entry(id.to_string()).or_insert_with(|| load_known(id).into_iter().map(|k| k.signature).collect()).clone()
}

/// C03 + C02 + C06 + C16 on one text
pub fn text_findings(data: &[u8]) -> Vec<Finding> {
    let text = String::from_utf8_lossy(data).to_string();
    let mut out = vec![];
    let k06 = known_for("C06");
    let checks: [(&str, Verdict); 4] = [
        ("C03", props::text::check_parse(&text, None)),
        ("C02", props::text::check_assemble(&text)),
        ("C06", props::text::check_compile_load(&text).0),
        ("C16", props::text::check_roundtrip(&text).0),
    ];
    for (id, v) in checks {
        if let Verdict::Fail(sig, detail) = v {
            if id == "C06" && k06.contains(&sig) {
                continue;
            }
            if id != "C03" && sig.starts_with("parser:") {
                continue; // reported once, under C03
            }
            out.push((id.to_string(), sig, detail));
        }
    }
    out
}

fn case_from_bytes<S: Strategy>(strat: &S, data: &[u8]) -> Option<S::Value> {
    let rng = TestRng::from_seed(RngAlgorithm::PassThrough, data);
    let mut runner = TestRunner::new_with_rng(Config { failure_persistence: None, ..Config::default() }, rng);
    strat.new_tree(&mut runner).ok().map(|t| t.current())
}

/// first byte selects the property, the rest drives its generator
pub fn machine_findings(data: &[u8]) -> Vec<Finding> {
    if data.is_empty() {
        return vec![];
    }
    let rest = &data[1..];
    let (id, v): (&str, Verdict) = match data[0] % 8 {
        0 | 1 => match case_from_bytes(&props::c13::script_strategy(60), rest) {
            Some(c) => ("C13", props::c13::run_script(&c).0),
            None => return vec![],
        },
        2 => match case_from_bytes(&props::c05::sup_strategy(), rest) {
            Some(c) => ("C05", props::c05::check_sup(&c).0),
            None => return vec![],
        },
        3 => match case_from_bytes(&props::c11::step_strategy(), rest) {
            Some(c) => ("C11", props::c11::check_steps(&c).0),
            None => return vec![],
        },
        4 => match case_from_bytes(&props::cpu::seq_strategy(40, 120), rest) {
            Some(c) => ("C01", props::cpu::check_seq(&c, props::cpu::Which::Semantics).0),
            None => return vec![],
        },
        5 => match case_from_bytes(&props::c07::case_strategy(), rest) {
            Some(c) => ("C07", props::c07::check_case(&c, 300).0),
            None => return vec![],
        },
        6 => match case_from_bytes(&props::cpu::single_strategy(), rest) {
            Some(c) => ("C15", props::cpu::check_single(&c, props::cpu::Which::Cycles).0),
            None => return vec![],
        },
        _ => match case_from_bytes(&props::cpu::single_strategy(), rest) {
            Some(c) => ("C01", props::cpu::check_single(&c, props::cpu::Which::Semantics).0),
            None => return vec![],
        },
    };
    match v {
        Verdict::Fail(sig, detail) => {
            if known_for(id).contains(&sig) {
                vec![]
            } else {
                vec![(id.to_string(), sig, detail)]
            }
        }
        Verdict::Pass => vec![],
    }
}

/// used by the fuzz targets: report and abort on a finding
pub fn abort_on(findings: Vec<Finding>) {
    if let Some((id, sig, detail)) = findings.into_iter().next() {
        eprintln!("FUZZ-FINDING property={} sig={} {}", id, sig, detail.chars().take(600).collect::<String>());
        std::process::abort();
    }
}

pub fn init_once() {
    static ONCE: std::sync::Once = std::sync::Once::new();
    ONCE.call_once(|| {
        // replace libFuzzer's aborting panic hook: panics of the code under test are caught and judged
        // by the oracles (known findings are tolerated), findings abort explicitly
        install_panic_hook();
    });
}
