//! Entry points for the coverage-guided fuzz targets (thorough tier) and their replay.
//! Each takes raw bytes, decodes them into a case (text, or a proptest strategy driven by the
//! bytes through proptest's pass-through RNG) and runs the same oracles as the checks.
use crate::engine::*;
use crate::props;

/// (property id, signature, detail)
pub type Finding = (String, String, String);

fn known_for(id: &str) -> Vec<String> {
    // the list is read once per process (the fuzzer calls this millions of times)
    static CACHE: std::sync::OnceLock<std::sync::Mutex<std::collections::HashMap<String, Vec<String>>>> = std::sync::OnceLock::new();
    let m = CACHE.get_or_init(|| std::sync::Mutex::new(std::collections::HashMap::new()));
    let mut g = m.lock().unwrap();
    g.entry(id.to_string()).or_insert_with(|| load_known(id).into_iter().map(|k| k.signature).collect()).clone()
}

/// C03 + C02 + C06 + C16 on one text
pub fn text_findings(data: &[u8]) -> Vec<Finding> {
    let text = String::from_utf8_lossy(data).to_string();
    let mut out = vec![];
    let k06 = known_for("C06");
    // rejected by the reference and (C03 passes =>) by the parser: the other three oracles have nothing
    // to say about a rejected text; skip their three extra parses
    if crate::refparse::parse(&text).is_err() {
        if let Verdict::Pass = props::text::check_parse(&text, None) {
            return vec![];
        }
        // disagreement: the parser may have accepted the text, so the later stages still count (C06)
    }
    let checks: [(&str, Verdict); 4] = [
        ("C03", props::text::check_parse(&text, None)),
        ("C02", props::text::check_assemble(&text)),
        ("C06", props::text::check_compile_load(&text).0),
        ("C16", props::text::check_roundtrip(&text).0),
    ];
    for (id, v) in checks {
        if let Verdict::Fail(sig, detail) = v {
            if id == "C06" && k06.contains(&sig) {
                continue;
            }
            if id != "C03" && sig.starts_with("parser:") {
                continue; // reported once, under C03
            }
            out.push((id.to_string(), sig, detail));
        }
    }
    out
}

/// Byte reader for the hand-written decoders (bytes -> structured case).  proptest's pass-through
/// RNG was tried first and dropped: some strategies fork the RNG, which halves the remaining data
/// each time, and rand's rejection sampling never terminates on the zeros an exhausted
/// pass-through RNG yields (observed as a 1200 s libFuzzer timeout on the first seed input).
struct Rd<'a> {
    d: &'a [u8],
    p: usize,
}
impl<'a> Rd<'a> {
    fn u8(&mut self) -> u8 {
        let v = self.d.get(self.p).copied().unwrap_or(0);
        self.p += 1;
        v
    }
    fn u32(&mut self) -> u32 {
        u32::from_le_bytes([self.u8(), self.u8(), self.u8(), self.u8()])
    }
    fn done(&self) -> bool {
        self.p >= self.d.len()
    }
}

fn decode_image(r: &mut Rd) -> Vec<u8> {
    let n = (r.u8() as usize) % 0xF1;
    (0..n).map(|_| r.u8()).collect()
}

fn decode_c13(r: &mut Rd) -> props::c13::Script {
    use props::c13::Op;
    let stack = r.u8() % 5;
    let psize = match r.u8() {
        0 => None,
        n => Some(n),
    };
    let image = decode_image(r);
    let mut ops = vec![];
    while !r.done() && ops.len() < 200 {
        let k = r.u8();
        ops.push(match k % 17 {
            0 | 1 | 2 => Op::Edges(k / 17 * 4 + 1),
            3 => Op::AsmStep,
            4 => Op::KeyInt,
            5 => Op::Continue,
            6 => Op::CpuReset,
            7 => Op::MasterReset,
            8 => Op::Input(k / 17 % 4, r.u8()),
            9 => Op::DigitalIn(r.u8()),
            10 => Op::Volt(k / 17 % 3, r.u32()),
            11 => Op::Jumper(k / 17 % 2, k & 0x80 != 0),
            12 => Op::Uio(k / 17 % 3, k & 0x80 != 0),
            13 => Op::BusWrite(0xF0 | (k / 17), r.u8()),
            14 => Op::BusWrite(r.u8(), r.u8()),
            15 => Op::Board(k / 17 % 8, r.u8()),
            _ => Op::BusRead(r.u8()),
        });
    }
    props::c13::Script { image, stack, psize, ops }
}

fn raw_prog(image: &[u8]) -> Vec<crate::progen_sem::Tm> {
    image.iter().map(|b| crate::progen_sem::Tm::Raw(*b)).collect()
}

fn decode_c05(r: &mut Rd) -> props::c05::SupCase {
    use props::c05::{Fill, Stim};
    let stack = r.u8() % 5;
    let limit = r.u8();
    let fill = if r.u8() & 1 == 0 { Fill::Zero } else { Fill::Nops };
    let image = decode_image(r);
    let mut stims = vec![];
    while !r.done() && stims.len() < 12 {
        let k = r.u8();
        stims.push(match k % 6 {
            0 => Stim::ClockReal(k / 6 + 1),
            1 => Stim::ClockAsm(k / 6 % 4 + 1),
            2 => Stim::KeyInt,
            3 => Stim::Input(k / 6 % 4, r.u8()),
            4 => Stim::Temp(r.u32()),
            _ => Stim::Uio(k / 6 % 3, k & 0x80 != 0),
        });
    }
    let never_sized = limit == 0xA5;
    props::c05::SupCase { stack, limit: Some(limit), via_text: false, never_sized, prog: raw_prog(&image), patches: vec![], fill, inp: [2, 2, 1, 0], max_instr: 300, stims }
}

fn decode_c11(r: &mut Rd) -> props::c11::StepCase {
    use props::c11::Op;
    let stack = r.u8() % 5;
    let limit = r.u8() | 0x80;
    let int_prelude = r.u8() & 1 == 1;
    let image = decode_image(r);
    let mut ops = vec![];
    while !r.done() && ops.len() < 80 {
        let k = r.u8();
        ops.push(match k % 8 {
            0 | 1 => Op::Edges(k / 8 % 12 + 1),
            2 | 3 | 4 => Op::AsmStep,
            5 => Op::KeyInt,
            6 => match k / 8 % 4 {
                0 => Op::CpuReset,
                1 => Op::MasterReset,
                2 => Op::Reload,
                _ => Op::Continue,
            },
            _ => Op::Input(k / 8 % 4, r.u8()),
        });
    }
    props::c11::StepCase { prog: raw_prog(&image), fill: props::c05::Fill::Nops, inp: [2, 2, 2, 2], stack, limit, int_prelude, ops }
}


// ---------------------------------------------------------------------------------------------
// token-level decoder for the text properties (fuzz target fz_tokens)

const MNEMONICS: [&str; 61] = [
    ".ORG", ".BYTE", ".DB", ".DW", ".EQU", "*STACKSIZE", "*PROGRAMSIZE", "CLR", "ADD", "ADC", "SUB", "MUL", "DIV", "INC", "DEC", "NEG",
    "AND", "OR", "XOR", "COM", "BITS", "BITC", "TST", "CMP", "BITT", "LSR", "ASR", "LSL", "RRC", "RLC", "MOV", "LD", "ST", "PUSH", "POP",
    "PUSHF", "POPF", "LDSP", "LDFR", "JMP", "JCS", "JCC", "JZS", "JZC", "JNS", "JNC", "JR", "CALL", "RET", "RETI", "STOP", "NOP", "EI", "DI",
    "NOSET", "AUTO", "16", "32", "48", "64", "0",
];
// 24 names the grammar allows (with case-colliding groups) and 8 it does not (a label may not begin with R, PC or SP)
const NAMES: [&str; 32] = [
    "a", "A", "loop", "LOOP", "Loop", "_x", "x_1", "end", "ENDE", "nowhere", "L9", "P", "S", "p", "s_p", "pR0", "q", "Q", "z9", "_", "__", "x", "main", "isr",
    "R", "RX", "r4", "PCX", "SPX", "SP", "sp_", "PC0",
];
fn pick_name(r: &mut Rd) -> &'static str {
    let c = r.u8();
    if c >= 240 {
        NAMES[24 + (c as usize & 7)]
    } else {
        NAMES[c as usize % 24]
    }
}
const REGS: [&str; 12] = ["R0", "R1", "R2", "R3", "PC", "r0", "r1", "r2", "r3", "pc", "SP", "R4"]; // the first nine are registers
const EDGE_NUMS: [&str; 22] = [
    "0", "00", "255", "256", "0255", "0xFF", "0x100", "0xff", "0x0FF", "0b11111111", "0b100000000", "65535", "65536", "0xFFFF", "0x10000",
    "0b1111111111111111", "0b10000000000000000", "240", "239", "241", "0x", "0b",
];

fn case_of(s: &str, mode: u8, bits: u32) -> String {
    match mode % 3 {
        0 => s.to_string(),
        1 => s.to_ascii_lowercase(),
        _ => s.chars().enumerate().map(|(i, ch)| if bits >> (i % 32) & 1 == 1 { ch.to_ascii_lowercase() } else { ch.to_ascii_uppercase() }).collect(),
    }
}

/// bytes -> program text, line by line.  Most lines are instruction templates whose operands are
/// decoded from the following bytes (valid with high probability, each operand deviating into a
/// near-miss with probability 1/16); some lines are free token sequences.  Names that are
/// referenced but never defined get a definition appended unless the header byte says otherwise,
/// so that a good share of the texts is accepted and reaches the assembler oracles.  The decoder
/// is total and has no notion of validity: the oracles decide.
pub fn token_text(data: &[u8]) -> String {
    let mut r = Rd { d: data, p: 0 };
    let mut s = String::new();
    let h = r.u8();
    match h % 32 {
        0 => {}
        1 => s.push_str("#! mrasm "),
        2 => s.push_str("#! mrasm ; c\n"),
        3 => s.push_str("#!mrasm\n"),
        4 => s.push_str("#! mrasm\r\n"),
        5 => s.push_str("#! mrasm;\n"),
        6 => s.push_str("#! MRASM\n"),
        7 => s.push_str("#! mrasm \n"),
        8 => s.push_str("#! mrasm  \n"),
        9 => s.push_str("#! mrasm\t\n"),
        10 => s.push_str("#! mrasm \t; c\n"),
        11 => s.push_str("#! mrasm ;c"),
        _ => s.push_str("#! mrasm\n"),
    }
    let fixup = h / 32 != 7;
    let eol = match h / 32 % 4 {
        3 => "\r\n",
        _ => "\n",
    };
    let mut referenced: Vec<String> = vec![];
    let mut defined: Vec<String> = vec![];
    let mut first = true;
    while !r.done() && s.len() < 6000 {
        if !first {
            s.push_str(eol);
        }
        first = false;
        let k = r.u8();
        // optional indentation / label definition
        if k & 0x80 != 0 {
            s.push_str(if k & 0x40 != 0 { "\t" } else { "  " });
        }
        let sel = k % 32;
        if sel == 31 {
            let n = pick_name(&mut r);
            defined.push(n.to_ascii_lowercase());
            s.push_str(n);
            s.push(':');
            continue;
        }
        line(&mut r, &mut s, sel, &mut referenced, &mut defined);
        if k & 0x20 != 0 && sel < 28 {
            s.push_str(" ;");
            let n = r.u8() % 10;
            for _ in 0..n {
                let c = r.u8();
                s.push(if c < 0x20 && c != b'\t' { ' ' } else if c < 0x7F { c as char } else { ['ä', 'é', '€', '日', '𝄞', '\u{85}', '\u{2028}', '\u{a0}'][(c & 7) as usize] });
            }
        }
    }
    if fixup {
        for n in referenced {
            if !defined.contains(&n) {
                defined.push(n.clone());
                s.push_str(eol);
                s.push_str(&n);
                s.push(':');
            }
        }
    }
    s
}

fn mnem(r: &mut Rd, m: &str) -> String {
    let c = r.u8();
    let m = if c >= 250 { MNEMONICS[(c as usize * 7) % MNEMONICS.len()] } else { m };
    let sep = match c % 5 {
        0 => "\t",
        1 => "  ",
        _ => " ",
    };
    format!("{}{}", case_of(m, c / 5, 0x5A5A_A5A5 ^ (c as u32 * 0x0101_0101)), sep)
}
fn reg(r: &mut Rd) -> String {
    let c = r.u8();
    if c >= 248 {
        ["SP", "R4", "R", "PC0", "(R0)", "R00", "", "3", "R10", "RO", "sp", "Pc", "pc", "pC", "r", "R-1"][(r.u8() % 16) as usize].to_string()
    } else {
        REGS[(c % 9) as usize].to_string()
    }
}
fn number(r: &mut Rd, wide: bool) -> String {
    let c = r.u8();
    if c >= 246 {
        return EDGE_NUMS[(r.u8() as usize) % EDGE_NUMS.len()].to_string();
    }
    let v: u32 = if wide { r.u8() as u32 | (r.u8() as u32) << 8 } else { r.u8() as u32 };
    let z = if c & 0x10 != 0 { "0".repeat((r.u8() % 20) as usize) } else { String::new() };
    // leading zeros are accepted in every radix; the value is what counts
    match c % 3 {
        0 => format!("{}{}", z, v),
        1 => {
            let hx = format!("{:x}", v);
            format!("0x{}{}", z, if c & 0x20 != 0 { hx.to_uppercase() } else { hx })
        }
        _ => format!("0b{}{:b}", z, v),
    }
}
fn name(r: &mut Rd, refs: &mut Vec<String>) -> String {
    let n = pick_name(r);
    refs.push(n.to_ascii_lowercase());
    n.to_string()
}
fn constant(r: &mut Rd, refs: &mut Vec<String>) -> String {
    if r.u8() % 4 == 0 {
        name(r, refs)
    } else {
        number(r, false)
    }
}
fn mem(r: &mut Rd, refs: &mut Vec<String>) -> String {
    let c = r.u8();
    match c % 8 {
        0 | 1 => format!("({})", reg(r)),
        2 | 3 | 4 => format!("({})", constant(r, refs)),
        5 => format!("({})", name(r, refs)),
        6 => format!("({})", number(r, false)),
        _ if c < 192 => format!("({})", reg(r)),
        _ => match c / 8 % 8 {
            0 => format!("( {})", reg(r)),
            1 => format!("({}", reg(r)),
            2 => format!("{})", reg(r)),
            3 => "()".to_string(),
            4 => format!("({}+", reg(r)),
            5 => format!("(({}))", reg(r)),
            6 => format!("({})", number(r, true)),
            _ => format!("({})", reg(r)),
        },
    }
}
fn dst(r: &mut Rd, refs: &mut Vec<String>) -> String {
    let c = r.u8();
    match c % 8 {
        0 | 1 => reg(r),
        2 => format!("({}+)", reg(r)),
        3 => format!("(({}+))", reg(r)),
        4 | 5 | 6 => mem(r, refs),
        _ if c < 192 => reg(r),
        _ => match c / 8 % 4 {
            0 => number(r, false),
            1 => name(r, refs),
            2 => format!("(({}+)", reg(r)),
            _ => format!("({}+))", reg(r)),
        },
    }
}
fn src(r: &mut Rd, refs: &mut Vec<String>) -> String {
    let c = r.u8();
    match c % 8 {
        0 | 1 => reg(r),
        2 => format!("({}+)", reg(r)),
        3 => format!("(({}+))", reg(r)),
        4 | 5 => mem(r, refs),
        _ => constant(r, refs),
    }
}
fn comma(r: &mut Rd) -> &'static str {
    match r.u8() {
        0..=120 => ", ",
        121..=200 => ",",
        201..=235 => ",  ",
        236..=249 => ",\t",
        250..=251 => " ,",
        252 => " ",
        253 => ",,",
        _ => "",
    }
}

fn line(r: &mut Rd, s: &mut String, sel: u8, refs: &mut Vec<String>, defined: &mut Vec<String>) {
    let pick = |r: &mut Rd, v: &[&'static str]| v[(r.u8() as usize) % v.len()];
    match sel {
        0 | 1 => {
            let m = pick(r, &["RET", "RETI", "STOP", "NOP", "EI", "DI", "PUSHF", "POPF"]);
            s.push_str(mnem(r, m).trim_end());
        }
        2 | 3 => {
            let m = pick(r, &["CLR", "INC", "NEG", "COM", "TST", "LSR", "ASR", "LSL", "RRC", "RLC", "PUSH", "POP"]);
            let t = format!("{}{}", mnem(r, m), reg(r));
            s.push_str(&t);
        }
        4 | 5 => {
            let m = pick(r, &["ADD", "ADC", "SUB", "MUL", "DIV", "AND", "OR", "XOR"]);
            let t = format!("{}{}{}{}", mnem(r, m), reg(r), comma(r), reg(r));
            s.push_str(&t);
        }
        6..=9 => {
            let m = pick(r, &["MOV", "CMP", "BITS", "BITC", "BITT"]);
            let t = format!("{}{}{}{}", mnem(r, m), dst(r, refs), comma(r), src(r, refs));
            s.push_str(&t);
        }
        10 | 11 => {
            let m = pick(r, &["DEC", "LDSP", "LDFR"]);
            let t = format!("{}{}", mnem(r, m), src(r, refs));
            s.push_str(&t);
        }
        12 | 13 => {
            let c = r.u8();
            let t = if c & 1 == 0 { format!("{}{}{}{}", mnem(r, "LD"), reg(r), comma(r), constant(r, refs)) } else { format!("{}{}{}{}", mnem(r, "LD"), reg(r), comma(r), mem(r, refs)) };
            s.push_str(&t);
        }
        14 => {
            let t = format!("{}{}{}{}", mnem(r, "ST"), mem(r, refs), comma(r), reg(r));
            s.push_str(&t);
        }
        15..=17 => {
            let m = pick(r, &["JMP", "JR", "CALL", "JZS", "JZC", "JCS", "JCC", "JNS", "JNC"]);
            let t = format!("{}{}", mnem(r, m), name(r, refs));
            s.push_str(&t);
        }
        18 => {
            let m = pick(r, &[".ORG", ".BYTE"]);
            let t = format!("{}{}", mnem(r, m), number(r, false));
            s.push_str(&t);
        }
        19 | 20 => {
            let wide = sel == 20;
            let mut t = format!("{}{}", mnem(r, if wide { ".DW" } else { ".DB" }), number(r, wide));
            let n = r.u8();
            let n = if n >= 250 { 40 + (n as usize - 250) * 20 } else { (n % 6) as usize };
            for _ in 0..n {
                t.push_str(comma(r));
                t.push_str(&number(r, wide));
            }
            s.push_str(&t);
        }
        21 => {
            let n = pick_name(r);
            defined.push(n.to_ascii_lowercase());
            let c = r.u8();
            let v = if c >= 240 { number(r, false) } else { format!("{}", r.u8()) };
            let t = format!("{}{}{}{}", mnem(r, ".EQU"), n, if c % 7 == 0 { "\t" } else { " " }, v);
            s.push_str(&t);
        }
        22 => {
            let v = pick(r, &["0", "16", "32", "48", "64", "NOSET", "noset", "NoSet", "8", "016", "0x10", "AUTO", "65", ""]);
            let t = format!("{}{}", mnem(r, "*STACKSIZE"), v);
            s.push_str(&t);
        }
        23 => {
            let c = r.u8();
            let v = match c % 8 {
                0 => "AUTO".to_string(),
                1 => "NOSET".to_string(),
                2 => "auto".to_string(),
                3 if c >= 128 => number(r, false),
                _ => format!("{}", r.u8()),
            };
            let t = format!("{}{}", mnem(r, "*PROGRAMSIZE"), v);
            s.push_str(&t);
        }
        24 => {
            // run of one-byte instructions (pushes the image towards the size limits)
            let n = r.u8();
            let m = pick(r, &["NOP", "STOP", "EI", "DI", "RET", "RETI", "PUSHF", "POPF"]);
            for i in 0..n {
                if i > 0 {
                    s.push('\n');
                }
                s.push_str(m);
            }
        }
        25 => {
            // label definition followed by an instruction on the same line
            let n = pick_name(r);
            defined.push(n.to_ascii_lowercase());
            s.push_str(n);
            // (a label and an instruction on one line is not mrasm: rare near-miss)
            s.push_str(match r.u8() {
                0..=120 => ":\n",
                121..=200 => ": \n  ",
                201..=235 => ":\t;x\n\t",
                236..=245 => ": ",
                246..=250 => ":",
                _ => " :\n",
            });
            let sub = r.u8() % 24;
            line(r, s, sub, refs, defined);
        }
        26 | 27 => {} // empty line (or comment only, see the caller)
        _ => {
            // free token sequence
            let n = r.u8() % 8 + 1;
            for _ in 0..n {
                let k = r.u8();
                let hi = k / 32;
                match k % 32 {
                    0..=5 => {
                        let m = MNEMONICS[(r.u8() as usize) % MNEMONICS.len()];
                        s.push_str(&case_of(m, hi, 0));
                        s.push(if hi & 4 == 0 { ' ' } else { '\t' });
                    }
                    6..=8 => s.push_str(REGS[(hi as usize + 8 * (k as usize % 32 - 6)) % REGS.len()]),
                    9..=11 => s.push_str(NAMES[(hi as usize + 8 * (k as usize % 32 - 9)) % NAMES.len()]),
                    12..=14 => s.push_str(&number(r, hi & 1 == 1)),
                    15 => s.push_str(EDGE_NUMS[(r.u8() as usize) % EDGE_NUMS.len()]),
                    16 => s.push_str(if hi & 1 == 0 { "," } else { ", " }),
                    17 | 18 => s.push_str(["(", ")", "+", "+)", "((", "))", "+))", ":"][hi as usize]),
                    19 | 20 => s.push_str(if hi & 1 == 0 { " " } else { "\t" }),
                    21 => s.push_str(["\n", "\r", "\r\n", "\n\t", ";", "; ", " ;", "#! mrasm"][hi as usize]),
                    _ => {
                        let c = r.u8();
                        if c < 0x80 {
                            s.push(c as char)
                        } else {
                            s.push(['ä', 'ß', '€', '日', '𝄞', '\u{85}', '\u{2028}', '\u{feff}'][(c & 7) as usize])
                        }
                    }
                }
            }
        }
    }
}

pub fn token_findings(data: &[u8]) -> Vec<Finding> {
    text_findings(token_text(data).as_bytes())
}

/// first byte selects the property, the rest is decoded into its case type
pub fn machine_findings(data: &[u8]) -> Vec<Finding> {
    if data.is_empty() {
        return vec![];
    }
    let mut r = Rd { d: data, p: 1 };
    let (id, v): (&str, Verdict) = match data[0] % 4 {
        0 | 1 => ("C13", props::c13::run_script(&decode_c13(&mut r)).0),
        2 => ("C05", props::c05::check_sup(&decode_c05(&mut r)).0),
        _ => ("C11", props::c11::check_steps(&decode_c11(&mut r)).0),
    };
    match v {
        Verdict::Fail(sig, detail) => {
            if known_for(id).contains(&sig) {
                vec![]
            } else {
                vec![(id.to_string(), sig, detail)]
            }
        }
        Verdict::Pass => vec![],
    }
}

/// used by the fuzz targets: report and abort on a finding
pub fn abort_on(findings: Vec<Finding>) {
    if let Some((id, sig, detail)) = findings.into_iter().next() {
        eprintln!("FUZZ-FINDING property={} sig={} {}", id, sig, detail.chars().take(600).collect::<String>());
        std::process::abort();
    }
}

pub fn init_once() {
    static ONCE: std::sync::Once = std::sync::Once::new();
    ONCE.call_once(|| {
        // replace libFuzzer's aborting panic hook: panics of the code under test are caught and judged
        // by the oracles (known findings are tolerated), findings abort explicitly
        install_panic_hook();
    });
}
