//! Two-pass reference assembler from the AST to (per-line bytes, limits), written from the
//! encoding table of DESIGN.md Appendix B with a case-folded name table.
#![allow(dead_code)]
use emulator_2a_lib::parser::*;
use std::collections::HashMap;

#[derive(Clone, Debug)]
enum B { Byte(u8), Ref(String), Rel(String, u16) } // Rel: label, address of next instruction

fn reg(r: Register) -> u8 { match r { Register::R0 => 0, Register::R1 => 1, Register::R2 => 2, Register::R3 => 3 } }
fn konst(k: &Constant) -> B { match k { Constant::Constant(v) => B::Byte(*v), Constant::Label(l) => B::Ref(l.clone()) } }
fn src_enc(s: &Source) -> (u8, u8, Option<B>) { // mode, reg, extra
    match s {
        Source::Register(r) => (0, reg(*r), None),
        Source::MemAddress(MemAddress::Register(r)) => (1, reg(*r), None),
        Source::RegisterDi(RegisterDi(r)) => (2, reg(*r), None),
        Source::RegisterDdi(RegisterDdi(r)) => (3, reg(*r), None),
        Source::Constant(k) => (2, 3, Some(konst(k))),
        Source::MemAddress(MemAddress::Constant(k)) => (3, 3, Some(konst(k))),
    }
}
fn dst_enc(d: &Destination) -> (u8, u8, Option<B>) {
    match d {
        Destination::Register(r) => (0, reg(*r), None),
        Destination::MemAddress(MemAddress::Register(r)) => (1, reg(*r), None),
        Destination::RegisterDi(RegisterDi(r)) => (2, reg(*r), None),
        Destination::RegisterDdi(RegisterDdi(r)) => (3, reg(*r), None),
        Destination::MemAddress(MemAddress::Constant(k)) => (3, 3, Some(konst(k))),
    }
}
fn two(second: u8, d: &Destination, s: &Source) -> Vec<B> {
    let (ms, rs, xs) = src_enc(s); let (md, rd, xd) = dst_enc(d);
    let mut v = vec![B::Byte(0xF0 | ms << 2 | rs)]; v.extend(xs); v.push(B::Byte(second | md << 2 | rd)); v.extend(xd); v
}
fn one_src(second: u8, s: &Source) -> Vec<B> {
    let (ms, rs, xs) = src_enc(s); let mut v = vec![B::Byte(0xF0 | ms << 2 | rs)]; v.extend(xs); v.push(B::Byte(second)); v
}
/// None => the form has no documented encoding here (DEC of a non-register)
fn encode(i: &Instruction, addr: u16) -> Option<Vec<B>> {
    use Instruction::*;
    let rr = |base: u8, d: &Register, s: &Register| vec![B::Byte(base | reg(*s) << 2 | reg(*d))];
    let r1 = |base: u8, d: &Register| vec![B::Byte(base | reg(*d))];
    let jr = |cc: u8, l: &String| vec![B::Byte(0x20 | cc), B::Rel(l.clone(), addr + 2)];
    Some(match i {
        AsmOrigin(_) | AsmByte(_) | AsmDefineBytes(_) | AsmDefineWords(_) | AsmEquals(..) | AsmStacksize(_) | AsmProgramsize(_) => unreachable!(),
        Clr(r) => r1(0x04, r), Add(d, s) => rr(0x60, d, s), Adc(d, s) => rr(0x70, d, s), Sub(d, s) => rr(0x80, d, s),
        Mul(d, s) => rr(0xB0, d, s), Div(d, s) => rr(0xC0, d, s), And(d, s) => rr(0x90, d, s), Or(d, s) => rr(0xA0, d, s), Xor(d, s) => rr(0xD0, d, s),
        Inc(r) => r1(0x44, r),
        // DEC through the addressing mode of its operand: 0x50 + (mode << 2) + reg [, operand byte]
        Dec(s) => { let (ms, rs, xs) = src_enc(s); let mut v = vec![B::Byte(0x50 | ms << 2 | rs)]; v.extend(xs); v }
        Neg(r) => r1(0x34, r), Com(r) => r1(0x30, r), Tst(r) => r1(0x48, r), Lsr(r) => r1(0x38, r), Asr(r) => r1(0x3C, r), Rrc(r) => r1(0x40, r),
        Lsl(r) => rr(0x60, r, r), Rlc(r) => rr(0x70, r, r),
        Bits(d, s) => two(0x50, d, s), Bitc(d, s) => two(0x60, d, s), Cmp(d, s) => two(0x20, d, s), Bitt(d, s) => two(0x30, d, s), Mov(d, s) => two(0x10, d, s),
        LdConstant(r, k) => two(0x10, &Destination::Register(*r), &Source::Constant(k.clone())),
        LdMemAddress(r, m) => two(0x10, &Destination::Register(*r), &Source::MemAddress(m.clone())),
        St(m, r) => two(0x10, &Destination::MemAddress(m.clone()), &Source::Register(*r)),
        Push(r) => r1(0x10, r), Pop(r) => r1(0x14, r), PushF => vec![B::Byte(0x18)], PopF => vec![B::Byte(0x1C)],
        Ldsp(s) => one_src(0x40, s), Ldfr(s) => one_src(0x44, s),
        Jmp(l) => vec![B::Byte(0xFB), B::Ref(l.clone()), B::Byte(0x13)],
        Jr(l) => jr(0, l), Jcs(l) => jr(1, l), Jzs(l) => jr(2, l), Jns(l) => jr(3, l), Jcc(l) => jr(5, l), Jzc(l) => jr(6, l), Jnc(l) => jr(7, l),
        Call(l) => vec![B::Byte(0x28), B::Ref(l.clone())],
        Ret => vec![B::Byte(0x17)], RetI => vec![B::Byte(0x2C)], Stop => vec![B::Byte(0x01)], Nop => vec![B::Byte(0x02)], Ei => vec![B::Byte(0x08)], Di => vec![B::Byte(0x0C)],
    })
}

/// `mask[i][j]` is false where byte j of line i refers to a name that is defined more than once with
/// different values: the statement speaks of "the" definition, so such a byte is not constrained.
pub struct RefImage { pub lines: Vec<Vec<u8>>, pub mask: Vec<Vec<bool>>, pub stacksize: Stacksize, pub programsize: Programsize, pub size: usize, pub ambiguous_names: usize }
#[derive(Debug)]
pub enum Unsupported { BackwardOrg, DecNonRegister, TooLarge }

pub fn assemble(asm: &Asm) -> Result<RefImage, Unsupported> {
    let mut addr: u16 = 0;
    let mut table: HashMap<String, u8> = HashMap::new();
    let mut ambiguous: std::collections::HashSet<String> = std::collections::HashSet::new();
    let mut define = |table: &mut HashMap<String, u8>, n: &str, v: u8| {
        if let Some(old) = table.insert(n.to_ascii_lowercase(), v) {
            if old != v {
                ambiguous.insert(n.to_ascii_lowercase());
            }
        }
    };
    let mut pre: Vec<Vec<B>> = vec![];
    let (mut ss, mut ps) = (Stacksize::_16, Programsize::Auto);
    for l in &asm.lines {
        let bs: Vec<B> = match l {
            Line::Empty(_) => vec![],
            Line::Label(n, _) => { define(&mut table, n, addr as u8); vec![] }
            Line::Instruction(i, _) => match i {
                Instruction::AsmOrigin(a) => { if (*a as u16) < addr { return Err(Unsupported::BackwardOrg); } vec![B::Byte(0); *a as usize - addr as usize] }
                Instruction::AsmByte(n) => vec![B::Byte(0); *n as usize],
                Instruction::AsmDefineBytes(v) => v.iter().map(|b| B::Byte(*b)).collect(),
                Instruction::AsmDefineWords(v) => v.iter().flat_map(|w| vec![B::Byte((*w >> 8) as u8), B::Byte(*w as u8)]).collect(),
                Instruction::AsmEquals(n, v) => { define(&mut table, n, *v); vec![] }
                Instruction::AsmStacksize(s) => { ss = *s; vec![] }
                Instruction::AsmProgramsize(p) => { ps = *p; vec![] }
                other => encode(other, addr).ok_or(Unsupported::DecNonRegister)?,
            },
        };
        addr += bs.len() as u16;
        if addr > 240 { return Err(Unsupported::TooLarge); }
        pre.push(bs);
    }
    let lines = pre.iter().map(|bs| bs.iter().map(|b| match b {
        B::Byte(v) => *v,
        B::Ref(l) => table[&l.to_ascii_lowercase()],
        B::Rel(l, next) => (table[&l.to_ascii_lowercase()] as u16).wrapping_sub(*next) as u8,
    }).collect()).collect();
    let mask = pre.iter().map(|bs| bs.iter().map(|b| match b {
        B::Byte(_) => true,
        B::Ref(l) | B::Rel(l, _) => !ambiguous.contains(&l.to_ascii_lowercase()),
    }).collect()).collect();
    Ok(RefImage { lines, mask, stacksize: ss, programsize: ps, size: addr as usize, ambiguous_names: ambiguous.len() })
}

/// length in bytes of one source line's instruction (directives included; .ORG is relative, 0 here)
pub fn length(i: &Instruction) -> usize {
    match i {
        Instruction::AsmOrigin(_) | Instruction::AsmEquals(..) | Instruction::AsmStacksize(_) | Instruction::AsmProgramsize(_) => 0,
        Instruction::AsmByte(n) => *n as usize,
        Instruction::AsmDefineBytes(v) => v.len(),
        Instruction::AsmDefineWords(v) => 2 * v.len(),
        other => encode(other, 0).map(|v| v.len()).unwrap_or(0),
    }
}

/// layout facts that do not stop at the first unsupported construct:
/// (some .ORG points below the current address, total image size with backward .ORGs ignored)
pub fn layout_flags(asm: &Asm) -> (bool, usize) {
    let mut addr = 0usize;
    let mut backward = false;
    for l in &asm.lines {
        if let Line::Instruction(i, _) = l {
            match i {
                Instruction::AsmOrigin(a) => {
                    if (*a as usize) < addr {
                        backward = true;
                    } else {
                        addr = *a as usize;
                    }
                }
                other => addr += length(other),
            }
        }
    }
    (backward, addr)
}
