//! Helpers to drive the real machine and to compare it with the `isa` model.
#![allow(dead_code)]

use crate::engine::Expand;
use crate::isa::{Outcome, Ref};
use emulator_2a_lib::machine::{Machine, MachineConfig, RawMachine, RegisterNumber, State, StepMode};
use emulator_2a_lib::parser::{Programsize, Stacksize};

pub const REGS: [RegisterNumber; 8] = [
    RegisterNumber::R0,
    RegisterNumber::R1,
    RegisterNumber::R2,
    RegisterNumber::R3,
    RegisterNumber::R4,
    RegisterNumber::R5,
    RegisterNumber::R6,
    RegisterNumber::R7,
];

pub const STACKSIZES: [Stacksize; 5] = [Stacksize::_0, Stacksize::_16, Stacksize::_32, Stacksize::_48, Stacksize::_64];

pub fn defined_first(op: u8) -> bool {
    !(0x4C..=0x4F).contains(&op) && !(0xE0..=0xEF).contains(&op)
}
pub fn defined_second(op: u8) -> bool {
    matches!(op >> 4, 1 | 2 | 3 | 5 | 6) || (0x40..=0x47).contains(&op)
}

/// Interesting byte values (boundaries of RAM / I/O page, sign, zero).
pub const BOUNDARY: [u8; 16] = [0, 1, 2, 0x7F, 0x80, 0x81, 0xEE, 0xEF, 0xF0, 0xF1, 0xF9, 0xFC, 0xFD, 0xFE, 0xFF, 0x10];

/// Run single raw edges until the next instruction boundary (leaving the current one first).
/// Returns the number of edges, or None if `cap` was exceeded.
thread_local! {
    /// When set to Some(k): the continue key is pressed before edge k of the next `run_to_boundary`
    /// (on a running machine: a documented no-op that must change neither result nor cycle count).
    pub static SPURIOUS_CONTINUE: std::cell::Cell<Option<usize>> = std::cell::Cell::new(None);
}

pub fn run_to_boundary(m: &mut RawMachine, cap: usize) -> Option<usize> {
    let mut n = 0;
    let press = SPURIOUS_CONTINUE.with(|c| c.take());
    while m.is_instruction_done() && m.state() == State::Running {
        if press == Some(n) {
            m.trigger_key_continue();
        }
        m.trigger_clock_edge();
        n += 1;
        if n > cap {
            return None;
        }
    }
    while !m.is_instruction_done() && m.state() == State::Running {
        if press == Some(n) {
            m.trigger_key_continue();
        }
        m.trigger_clock_edge();
        n += 1;
        if n > cap {
            return None;
        }
    }
    Some(n)
}

/// Architectural start state for single-instruction cases.
#[derive(Clone, Debug)]
pub struct ArchState {
    /// R0,R1,R2,PC,FR,SP,R6,R7
    pub regs: [u8; 8],
    pub ram: [u8; 0xF0],
    pub inp: [u8; 4],
}

/// RAM background from a generated seed (seed 0 = all zero, so shrinking ends in an empty RAM).
pub fn ram_from_seed(seed: u64) -> [u8; 0xF0] {
    let mut ram = [0u8; 0xF0];
    if seed != 0 {
        let mut e = Expand(seed);
        for b in ram.iter_mut() {
            *b = e.u8();
        }
    }
    ram
}

/// Build a machine holding `st`, advanced to its first instruction boundary (the fetch word of
/// the instruction at PC has been executed; its PC increment is pending).
/// Limits are switched off as far as possible (stack size 0, program size 255).
pub fn machine_at_boundary(st: &ArchState) -> Option<Machine> {
    let mut m = Machine::new(MachineConfig::default());
    m.raw_mut().set_stacksize(Stacksize::_0);
    m.raw_mut().set_programsize(Programsize::Size(255));
    m.raw_mut().bus_mut().memory_mut().copy_from_slice(&st.ram);
    m.set_input_fc(st.inp[0]);
    m.set_input_fd(st.inp[1]);
    m.set_input_fe(st.inp[2]);
    m.set_input_ff(st.inp[3]);
    for i in 0..8 {
        m.raw_mut().registers_mut().set(REGS[i], st.regs[i]);
    }
    run_to_boundary(m.raw_mut(), 64)?;
    if m.state() != State::Running {
        return None;
    }
    Some(m)
}

/// The model for the same start state; `io` is a clone of the machine's bus (board, MISR, UART
/// are the bus decoder's business, not the CPU's).
pub fn model_of(st: &ArchState, m: &RawMachine) -> Ref {
    Ref {
        r: [st.regs[0], st.regs[1], st.regs[2], st.regs[3]],
        fr: st.regs[4],
        sp: st.regs[5],
        ram: st.ram,
        inp: st.inp,
        out: [m.bus().output_fe(), m.bus().output_ff()],
        io: m.bus().clone(),
        ram_accesses: 0,
        steps: 0,
        pc_trace: vec![],
        sp_trace: vec![],
    }
}

/// Model synchronised from a machine that sits at a boundary.
pub fn model_from_machine(m: &RawMachine) -> Ref {
    let c = m.registers().content();
    let mut ram = [0u8; 0xF0];
    ram.copy_from_slice(&m.bus().memory()[..]);
    Ref {
        r: [c[0], c[1], c[2], c[3]],
        fr: c[4],
        sp: c[5],
        ram,
        inp: [m.bus().read(0xFC), m.bus().read(0xFD), m.bus().read(0xFE), m.bus().read(0xFF)],
        out: [m.bus().output_fe(), m.bus().output_ff()],
        io: m.bus().clone(),
        ram_accesses: 0,
        steps: 0,
        pc_trace: vec![],
        sp_trace: vec![],
    }
}

/// Information about the instruction the model is about to execute (for cycle counting and
/// for deciding whether stepping in Assembly mode is safe).
#[derive(Clone, Copy, Debug)]
pub struct Upcoming {
    pub op: u8,
    pub op2: u8,
    /// value of Rd (low two bits) as the instruction will see it (PC already incremented)
    pub rd: u8,
    /// value of Rs (bits 3-2) as the instruction will see it
    pub rs: u8,
}

pub fn upcoming(r: &Ref) -> Upcoming {
    let mut p = r.clone();
    let pc = p.r[3];
    let op = p.peek(pc);
    let mut q = p.r;
    q[3] = pc.wrapping_add(1);
    let rd = q[(op & 3) as usize];
    let rs = q[((op >> 2) & 3) as usize];
    let op2 = if op >= 0xF0 {
        p.r[3] = pc.wrapping_add(1);
        let _ = p.operand_pub((op >> 2) & 3, (op & 3) as usize);
        let a2 = p.r[3];
        p.peek(a2)
    } else {
        0
    };
    Upcoming { op, op2, rd, rs }
}

pub fn is_emittable(u: &Upcoming) -> bool {
    if u.op < 2 || !defined_first(u.op) {
        return false;
    }
    if u.op >= 0xF0 {
        return defined_second(u.op2);
    }
    true
}

/// Differences in the compared architectural state (empty = equal).
pub fn diff_state(m: &RawMachine, r: &Ref) -> Vec<String> {
    let mut d = vec![];
    let c = m.registers().content();
    for i in 0..4 {
        if c[i] != r.r[i] {
            d.push(format!("R{} impl {:02X} model {:02X}", i, c[i], r.r[i]));
        }
    }
    if c[4] != r.fr {
        d.push(format!("FR impl {:02X} model {:02X}", c[4], r.fr));
    }
    if c[5] != r.sp {
        d.push(format!("SP impl {:02X} model {:02X}", c[5], r.sp));
    }
    let mem = m.bus().memory();
    for a in 0..0xF0 {
        if mem[a] != r.ram[a] {
            d.push(format!("RAM[{:02X}] impl {:02X} model {:02X}", a, mem[a], r.ram[a]));
            if d.len() > 8 {
                break;
            }
        }
    }
    if m.bus().output_fe() != r.out[0] {
        d.push(format!("OUT-FE impl {:02X} model {:02X}", m.bus().output_fe(), r.out[0]));
    }
    if m.bus().output_ff() != r.out[1] {
        d.push(format!("OUT-FF impl {:02X} model {:02X}", m.bus().output_ff(), r.out[1]));
    }
    d
}

/// Name of the instruction group, used for signatures and class counts.
pub fn group_name(u: &Upcoming) -> String {
    let n = match u.op >> 4 {
        0 => match u.op {
            0 => "ERR0",
            1 => "STOP",
            2 | 3 => "NOP",
            4..=7 => "CLR",
            8..=0xB => "EI",
            _ => "DI",
        },
        1 => ["PUSH", "POP", "PUSHF", "POPF"][((u.op >> 2) & 3) as usize],
        2 => ["JR", "JRn", "CALL", "RETI"][((u.op >> 2) & 3) as usize],
        3 => ["COM", "NEG", "LSR", "ASR"][((u.op >> 2) & 3) as usize],
        4 => ["RRC", "INC", "TST", "UNDEF4C"][((u.op >> 2) & 3) as usize],
        5 => ["DEC_R", "DEC_(R)", "DEC_(R+)", "DEC_((R+))"][((u.op >> 2) & 3) as usize],
        6 => "ADD",
        7 => "ADC",
        8 => "SUB",
        9 => "AND",
        0xA => "OR",
        0xB => "MUL",
        0xC => "DIV",
        0xD => "XOR",
        0xE => "UNDEF_E",
        _ => {
            let second = match u.op2 >> 4 {
                1 => "MOV",
                2 => "CMP",
                3 => "BITT",
                4 => {
                    if u.op2 < 0x44 {
                        "LDSP"
                    } else if u.op2 < 0x48 {
                        "LDFR"
                    } else {
                        "UNDEF2"
                    }
                }
                5 => "BITS",
                6 => "BITC",
                _ => "UNDEF2",
            };
            return format!("{}:src{}:dst{}", second, (u.op >> 2) & 3, (u.op2 >> 2) & 3);
        }
    };
    n.to_string()
}

pub fn step_mode_step(m: &mut Machine, assembly: bool) {
    m.set_step_mode(if assembly { StepMode::Assembly } else { StepMode::Real });
    m.trigger_key_clock();
}

pub fn outcome_name(o: Outcome) -> &'static str {
    match o {
        Outcome::Done => "done",
        Outcome::Stopped => "stopped",
        Outcome::ErrorOp0 => "error-op0",
        Outcome::Hang => "hang",
        Outcome::Undefined => "undefined",
    }
}
