//! `check <ID> [--tier quick|thorough] [--seed N] [--replay FILE] [--strict]`

use h2a::engine::{self, Ctx, Tier};
use h2a::props;
use std::time::Instant;

fn main() {
    let args: Vec<String> = std::env::args().collect();
    if args.len() < 2 {
        eprintln!("usage: check <C01..C17> [--tier quick|thorough] [--seed N] [--replay FILE] [--strict]");
        std::process::exit(2);
    }
    if args[1] == "fuzz-replay" {
        // deterministic, non-instrumented re-check of a fuzz artifact: `check fuzz-replay <target> <file>`
        engine::install_panic_hook();
        let data = std::fs::read(&args[3]).expect("artifact");
        for (p, s, d) in fuzz_findings(&args[2], &data) {
            println!("FINDING {} {} {}", p, s, d.replace('\n', " ").chars().take(500).collect::<String>());
        }
        std::process::exit(0);
    }
    if args[1] == "token-sample" {
        // generator health of the token decoder: accept rate of the reference recogniser on random bytes
        use proptest::prelude::RngCore;
        let n: usize = args.get(2).and_then(|s| s.parse().ok()).unwrap_or(1000);
        let len: usize = args.get(3).and_then(|s| s.parse().ok()).unwrap_or(64);
        let mut rng = engine::rng_from_seed(7);
        let (mut acc, mut shown) = (0, 0);
        for _ in 0..n {
            let mut d = vec![0u8; len];
            rng.fill_bytes(&mut d);
            let t = h2a::fuzzsupport::token_text(&d);
            let res = h2a::refparse::parse(&t);
            let ok = res.is_ok();
            if let Err(e) = &res {
                if std::env::var("TOKEN_ERRS").is_ok() {
                    if let h2a::refparse::RefErr::Syntax(i, _) = e {
                        println!("ERR {:?} LINE {:?}", e, t.split('\n').nth(*i).unwrap_or(""));
                    } else {
                        println!("ERR {:?}", e);
                    }
                }
            }
            if ok {
                acc += 1;
            }
            if shown < 6 && (ok || shown < 3) {
                shown += 1;
                println!("--- accepted={} ---\n{}", ok, t);
            }
        }
        println!("accepted {} of {}", acc, n);
        std::process::exit(0);
    }
    let id = args[1].clone();
    let mut tier = match std::env::var("VERIF_TIER").ok().as_deref() {
        Some("thorough") => Tier::Thorough,
        _ => Tier::Quick,
    };
    let mut seed: u64 = std::env::var("VERIF_SEED").ok().and_then(|s| s.parse().ok()).unwrap_or(1);
    let mut replay = None;
    let mut strict = false;
    let mut i = 2;
    while i < args.len() {
        match args[i].as_str() {
            "--tier" => {
                i += 1;
                tier = if args[i] == "thorough" { Tier::Thorough } else { Tier::Quick };
            }
            "--seed" => {
                i += 1;
                seed = args[i].parse().expect("seed");
            }
            "--replay" => {
                i += 1;
                replay = Some(std::path::PathBuf::from(&args[i]));
            }
            "--strict" => strict = true,
            other => {
                eprintln!("unknown argument {}", other);
                std::process::exit(2);
            }
        }
        i += 1;
    }
    let threads = std::thread::available_parallelism().map(|n| n.get()).unwrap_or(8).min(16);
    let ctx = Ctx { id: id.clone(), tier, seed, start: Instant::now(), replay, strict, threads };
    engine::install_panic_hook();
    // global watchdog: a resource limit is "inconclusive" (exit 2), never a violation
    {
        let limit = std::env::var("VERIF_WATCHDOG_S").ok().and_then(|s| s.parse().ok()).unwrap_or(match tier {
            Tier::Quick => 1500u64,
            Tier::Thorough => 6 * 3600,
        });
        let id2 = id.clone();
        std::thread::spawn(move || {
            std::thread::sleep(std::time::Duration::from_secs(limit));
            println!("INCONCLUSIVE property={} watchdog after {} s (resource limit, not a violation)", id2, limit);
            std::process::exit(2);
        });
    }
    let run = || -> engine::Evidence {
        if let Some(ev) = replay_fuzz_artifact(&ctx) {
            return ev;
        }
        match id.as_str() {
        "C01" => props::cpu::run(&ctx, props::cpu::Which::Semantics),
        "C15" => props::cpu::run(&ctx, props::cpu::Which::Cycles),
        "C02" => props::text::run(&ctx, props::text::Which::C02),
            "C03" => props::text::run(&ctx, props::text::Which::C03),
            "C06" => props::text::run(&ctx, props::text::Which::C06),
            "C16" => props::text::run(&ctx, props::text::Which::C16),
            "C04" => props::c04::run(&ctx),
            "C05" => props::c05::run(&ctx),
            "C07" => props::c07::run(&ctx),
            "C08" => props::c08::run(&ctx),
            "C10" => props::c10::run(&ctx),
            "C11" => props::c11::run(&ctx),
            "C12" => props::c12::run(&ctx),
            "C14" => props::c14::run(&ctx),
            "C13" => props::c13::run(&ctx),
        "C09" => props::c09::run(&ctx),
        _ => {
            eprintln!("unknown property {}", id);
            std::process::exit(2);
        }
        }
    };
    let ev = match engine::catch(run) {
        Ok(ev) => ev,
        Err(p) => {
            // a panic that escaped every guard: inside the code under test it is a finding of its own,
            // inside the harness it is a harness error (inconclusive)
            if p.contains("emulator-2a") {
                let mut ev = engine::Evidence::new("exploration", "run aborted by a panic in the code under test");
                ev.evaluations = 1;
                ev.violation("panic", &engine::panic_signature(&p), format!("uncaught panic in the code under test: {}", p), serde_json::json!({"panic": p}));
                ev
            } else {
                println!("HARNESS-ERROR property={} {}", id, p);
                std::process::exit(2);
            }
        }
    };
    let mut ev = ev;
    if ctx.tier == Tier::Thorough && ctx.replay.is_none() {
        merge_fuzz_stats(&ctx, &mut ev);
    }
    let code = engine::finish(&ctx, ev);
    std::process::exit(code);
}

fn fuzz_targets_of(id: &str) -> Vec<&'static str> {
    match id {
        "C02" | "C03" | "C06" | "C16" => vec!["fz_text", "fz_tokens"],
        "C05" | "C11" | "C13" => vec!["fz_machine"],
        _ => vec![],
    }
}

fn fuzz_findings(target: &str, data: &[u8]) -> Vec<h2a::fuzzsupport::Finding> {
    match target {
        "fz_text" => h2a::fuzzsupport::text_findings(data),
        "fz_tokens" => h2a::fuzzsupport::token_findings(data),
        "fz_machine" => h2a::fuzzsupport::machine_findings(data),
        _ => vec![],
    }
}

/// `--replay` of a fuzz artifact (raw bytes, or a replay JSON of kind "fuzz" pointing at one)
fn replay_fuzz_artifact(ctx: &Ctx) -> Option<engine::Evidence> {
    let path = ctx.replay.as_ref()?;
    let raw = std::fs::read(path).ok()?;
    let artifact: Vec<u8> = match serde_json::from_slice::<serde_json::Value>(&raw) {
        Ok(doc) if doc["kind"] == "fuzz" => std::fs::read(doc["case"]["artifact"].as_str()?).ok()?,
        Ok(_) => return None,
        Err(_) => raw,
    };
    let targets = fuzz_targets_of(&ctx.id);
    // the artifact's file name (or the path recorded in the replay JSON) names the target that produced it
    let named = |p: &str| targets.iter().copied().find(|t| p.contains(&format!("fuzz-{}-", t)));
    let target = named(&path.display().to_string())
        .or_else(|| serde_json::from_slice::<serde_json::Value>(&std::fs::read(path).ok()?).ok().and_then(|d| named(d["case"]["artifact"].as_str()?)))
        .or(targets.first().copied())?;
    let mut ev = engine::Evidence::new("exploration", "replay of a fuzz artifact through the deterministic oracles");
    ev.evaluations = 1;
    for (p, s, d) in fuzz_findings(target, &artifact) {
        if p == ctx.id {
            ev.violation("fuzz", &s, d, serde_json::json!({"artifact": path.display().to_string()}));
        }
    }
    Some(ev)
}

/// thorough tier: fold the coverage-guided campaign (run by fuzz.sh just before) into the evidence
fn merge_fuzz_stats(ctx: &Ctx, ev: &mut engine::Evidence) {
    for target in fuzz_targets_of(&ctx.id) {
        merge_fuzz_stats_of(ctx, ev, target);
    }
}

fn merge_fuzz_stats_of(ctx: &Ctx, ev: &mut engine::Evidence, target: &str) {
    let path = format!("/verif/target/fuzz-stats-{}.json", target);
    let doc: serde_json::Value = match std::fs::read_to_string(&path).ok().and_then(|t| serde_json::from_str(&t).ok()) {
        Some(d) => d,
        None => {
            ev.extra.insert(format!("fuzz_campaign_{}", target), serde_json::json!("not run"));
            return;
        }
    };
    ev.evaluations += doc["executions"].as_u64().unwrap_or(0);
    ev.class(&format!("fuzz:{}:executions", target), doc["executions"].as_u64().unwrap_or(0));
    if let Some(fs) = doc["findings"].as_array() {
        for f in fs {
            if f["property"] == ctx.id.as_str() {
                ev.violation("fuzz", f["signature"].as_str().unwrap_or("fuzz"), f["detail"].as_str().unwrap_or("").to_string(), serde_json::json!({"artifact": f["artifact"]}));
            }
        }
    }
    ev.parts.push(doc);
}
