//! Semantic program generator: machine programs built from instruction templates
//! (proptest strategies, so whole programs shrink as one value).
#![allow(dead_code)]

use proptest::prelude::*;
use serde::{Deserialize, Serialize};

/// One instruction template.  `assemble` turns it into bytes using the encoding of
/// DESIGN.md Appendix B.
#[derive(Clone, Debug, Serialize, Deserialize, PartialEq, Eq, Hash)]
pub enum Tm {
    /// LDSP #v
    LdSp(u8),
    /// LDFR #v
    LdFr(u8),
    /// LD Rd, #v
    LdConst(u8, u8),
    /// LD Rd, (addr)
    LdAbs(u8, u8),
    /// ST (addr), Rs
    StAbs(u8, u8),
    /// reg-reg ALU group: base in {0x60,..,0xD0}, rd, rs
    Alu(u8, u8, u8),
    /// one-register ops: base in {0x04 CLR,0x30 COM,0x34 NEG,0x38 LSR,0x3C ASR,0x40 RRC,0x44 INC,0x48 TST,0x50 DEC}
    Unary(u8, u8),
    /// DEC through addressing mode (mode 1..3), reg, following byte (used when reg = 3)
    DecMode(u8, u8, u8),
    /// general two-byte instruction: second base (0x10 MOV,0x20 CMP,0x30 BITT,0x50 BITS,0x60 BITC),
    /// src mode, src reg, src byte (used for PC-relative), dst mode, dst reg, dst byte
    Two(u8, u8, u8, u8, u8, u8, u8),
    /// LDSP / LDFR with arbitrary source: (is_ldfr, src mode, src reg, src byte)
    LdSpecial(bool, u8, u8, u8),
    Push(u8),
    Pop(u8),
    PushF,
    PopF,
    /// conditional relative jump: cond (0..7), offset
    Jr(u8, u8),
    Call(u8),
    Reti,
    /// 0x08|low
    Ei(u8),
    /// 0x0C|low
    Di(u8),
    /// 0x02|low
    Nop(u8),
    Stop,
    Raw(u8),
}

pub fn assemble_one(t: &Tm, out: &mut Vec<u8>) {
    match *t {
        Tm::LdSp(v) => out.extend_from_slice(&[0xFB, v, 0x40]),
        Tm::LdFr(v) => out.extend_from_slice(&[0xFB, v, 0x44]),
        Tm::LdConst(rd, v) => out.extend_from_slice(&[0xFB, v, 0x10 + (rd & 3)]),
        Tm::LdAbs(rd, a) => out.extend_from_slice(&[0xFF, a, 0x10 + (rd & 3)]),
        Tm::StAbs(a, rs) => out.extend_from_slice(&[0xF0 + (rs & 3), 0x1F, a]),
        Tm::Alu(base, rd, rs) => out.push(base + ((rs & 3) << 2) + (rd & 3)),
        Tm::Unary(base, rd) => out.push(base + (rd & 3)),
        Tm::DecMode(mode, reg, b) => {
            out.push(0x50 + ((mode & 3) << 2) + (reg & 3));
            if reg & 3 == 3 && mode & 3 >= 2 {
                out.push(b);
            }
        }
        Tm::Two(second, ms, rs, sb, md, rd, db) => {
            out.push(0xF0 + ((ms & 3) << 2) + (rs & 3));
            if rs & 3 == 3 && ms & 3 >= 2 {
                out.push(sb);
            }
            out.push(second + ((md & 3) << 2) + (rd & 3));
            if rd & 3 == 3 && md & 3 >= 2 {
                out.push(db);
            }
        }
        Tm::LdSpecial(fr, ms, rs, sb) => {
            out.push(0xF0 + ((ms & 3) << 2) + (rs & 3));
            if rs & 3 == 3 && ms & 3 >= 2 {
                out.push(sb);
            }
            out.push(if fr { 0x44 } else { 0x40 });
        }
        Tm::Push(r) => out.push(0x10 + (r & 3)),
        Tm::Pop(r) => out.push(0x14 + (r & 3)),
        Tm::PushF => out.push(0x18),
        Tm::PopF => out.push(0x1C),
        Tm::Jr(c, off) => out.extend_from_slice(&[0x20 + (c & 7), off]),
        Tm::Call(a) => out.extend_from_slice(&[0x28, a]),
        Tm::Reti => out.push(0x2C),
        Tm::Ei(l) => out.push(0x08 | (l & 3)),
        Tm::Di(l) => out.push(0x0C | (l & 3)),
        Tm::Nop(l) => out.push(0x02 | (l & 1)),
        Tm::Stop => out.push(0x01),
        Tm::Raw(b) => out.push(b),
    }
}

pub fn assemble(ts: &[Tm]) -> Vec<u8> {
    let mut out = vec![];
    for t in ts {
        assemble_one(t, &mut out);
    }
    out
}

/// byte values with boundary bias
pub fn byte_biased() -> impl Strategy<Value = u8> {
    prop_oneof![
        3 => any::<u8>(),
        2 => prop::sample::select(crate::mach::BOUNDARY.to_vec()),
        1 => 0xE8u8..=0xFF,
    ]
}

/// RAM addresses that are unlikely to hit code at low addresses
pub fn data_addr() -> impl Strategy<Value = u8> {
    prop_oneof![
        4 => 0xA0u8..=0xEF,
        1 => 0xF0u8..=0xFF,
        1 => any::<u8>(),
    ]
}

const ALU_BASES: [u8; 8] = [0x60, 0x70, 0x80, 0x90, 0xA0, 0xB0, 0xC0, 0xD0];
const UNARY_BASES: [u8; 9] = [0x04, 0x30, 0x34, 0x38, 0x3C, 0x40, 0x44, 0x48, 0x50];
const SECOND_BASES: [u8; 5] = [0x10, 0x20, 0x30, 0x50, 0x60];

/// Instruction templates for lock-step sequences (anything defined, wild addressing allowed).
pub fn tm_any() -> impl Strategy<Value = Tm> {
    prop_oneof![
        2 => byte_biased().prop_map(Tm::LdSp),
        1 => any::<u8>().prop_map(Tm::LdFr),
        6 => (0u8..3, byte_biased()).prop_map(|(r, v)| Tm::LdConst(r, v)),
        3 => (0u8..4, data_addr()).prop_map(|(r, a)| Tm::LdAbs(r, a)),
        3 => (data_addr(), 0u8..4).prop_map(|(a, r)| Tm::StAbs(a, r)),
        8 => (prop::sample::select(ALU_BASES.to_vec()), 0u8..4, 0u8..4).prop_map(|(b, d, s)| Tm::Alu(b, d, s)),
        6 => (prop::sample::select(UNARY_BASES.to_vec()), 0u8..4).prop_map(|(b, d)| Tm::Unary(b, d)),
        3 => (1u8..4, 0u8..4, data_addr()).prop_map(|(m, r, b)| Tm::DecMode(m, r, b)),
        10 => (prop::sample::select(SECOND_BASES.to_vec()), 0u8..4, 0u8..4, data_addr(), 0u8..4, 0u8..4, data_addr())
            .prop_map(|(s, ms, rs, sb, md, rd, db)| Tm::Two(s, ms, rs, sb, md, rd, db)),
        1 => (any::<bool>(), 0u8..4, 0u8..4, byte_biased()).prop_map(|(f, ms, rs, sb)| Tm::LdSpecial(f, ms, rs, sb)),
        3 => (0u8..4).prop_map(Tm::Push),
        3 => (0u8..3).prop_map(Tm::Pop),
        1 => Just(Tm::Pop(3)),
        1 => Just(Tm::PushF),
        1 => Just(Tm::PopF),
        4 => (0u8..8, prop_oneof![0u8..8, 0xF8u8..=0xFF, any::<u8>()]).prop_map(|(c, o)| Tm::Jr(c, o)),
        1 => any::<u8>().prop_map(Tm::Call),
        1 => Just(Tm::Reti),
        1 => (0u8..4).prop_map(Tm::Ei),
        1 => (0u8..4).prop_map(Tm::Di),
        1 => (0u8..2).prop_map(Tm::Nop),
        1 => any::<u8>().prop_map(Tm::Raw),
        1 => Just(Tm::Stop),
    ]
}

/// "Tame" templates: straight-line code that keeps SP and PC under control so that programs
/// run long and terminate (used where the program must be well behaved: C04, C07, C12).
/// Registers R0-R2 only, memory operands only through absolute addresses in `lo..=hi`.
pub fn tm_tame(lo: u8, hi: u8) -> impl Strategy<Value = Tm> {
    let addr = lo..=hi;
    prop_oneof![
        6 => (0u8..3, any::<u8>()).prop_map(|(r, v)| Tm::LdConst(r, v)),
        3 => (0u8..3, addr.clone()).prop_map(|(r, a)| Tm::LdAbs(r, a)),
        3 => (addr.clone(), 0u8..3).prop_map(|(a, r)| Tm::StAbs(a, r)),
        8 => (prop::sample::select(ALU_BASES.to_vec()), 0u8..3, 0u8..3).prop_map(|(b, d, s)| Tm::Alu(b, d, s)),
        6 => (prop::sample::select(UNARY_BASES.to_vec()), 0u8..3).prop_map(|(b, d)| Tm::Unary(b, d)),
        2 => (prop::sample::select(vec![0x20u8, 0x30, 0x50, 0x60]), any::<u8>(), 0u8..3)
            .prop_map(|(s, v, rd)| Tm::Two(s, 2, 3, v, 0, rd, 0)),
        2 => (prop::sample::select(vec![0x10u8, 0x20, 0x30, 0x50, 0x60]), 0u8..3, addr.clone())
            .prop_map(|(s, rs, a)| Tm::Two(s, 0, rs, 0, 3, 3, a)),
        1 => (0u8..2).prop_map(Tm::Nop),
    ]
}
