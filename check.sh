#!/bin/sh
# usage: check.sh <property id> [quick|thorough] [extra args for the check binary]
# Rebuilds the harness against /repo's current working tree (path dependency, hooks on),
# then runs the check.  exit 0 = held, 1 = VIOLATION, 2 = inconclusive / build problem.
ID="$1"; TIER="${2:-${VERIF_TIER:-quick}}"
[ $# -ge 1 ] && shift; [ $# -ge 1 ] && shift
export CARGO_NET_OFFLINE=true
cd /verif/harness || exit 2
case "$ID" in
  C17) CRATE=/verif/harness-bin; BIN=/verif/target/release/check-bin ;;
  *)   CRATE=/verif/harness;     BIN=/verif/target/release/check ;;
esac
LOG=/verif/target/build-$ID.log
mkdir -p /verif/target
if ! (cd "$CRATE" && cargo build --release --offline -q) >"$LOG" 2>&1; then
  echo "BUILD FAILED (harness against /repo working tree); see $LOG"
  grep -E "^error" -A 8 "$LOG" | head -60
  exit 2
fi
if [ "$ID" = C12 ] || [ "$ID" = C06 ]; then
  # process-level part: the real binary, built from /repo's working tree with the hooks off
  if ! (cd /repo && cargo build --offline -q -p emulator-2a --target-dir /verif/target/repo-bin) >>"$LOG" 2>&1; then
    echo "BUILD FAILED (2a-emulator binary from /repo working tree); see $LOG"
    grep -E "^error" -A 8 "$LOG" | head -60
    exit 2
  fi
fi
if [ "$TIER" = thorough ] && [ $# -eq 0 ]; then
  # coverage-guided stage of the thorough tier (fixed -runs / -seed; artifacts are re-checked by the
  # deterministic replay path inside fuzz.sh; results are folded into the evidence by the check binary)
  SEED="${VERIF_SEED:-1}"
  case "$ID" in
    C02|C03|C06|C16) /verif/fuzz.sh fz_text 150000 "$SEED" 8 768; /verif/fuzz.sh fz_tokens 60000 "$SEED" 8 512 ;;
    C05|C11|C13) /verif/fuzz.sh fz_machine 60000 "$SEED" 8 512 ;;
    C17) /verif/fuzz.sh fz_tui 1200 "$SEED" 8 512 ;;
  esac
fi
exec "$BIN" "$ID" --tier "$TIER" "$@"
